(* C20 - name resolution returns the registered address and caches it.
   Property theorems only; each is closed by [exact lemma]; statements are pinned.

   Vocabulary (Model/DnsProto.v, Proofs/DnsProtoFacts.v):
     run cfg tr st      tr is a trace of the transition system of clients, server and datagrams
                        (labels: EvL lookup starts, EvQ query leaves a client socket, EvA reply leaves
                        the server, EvR lookup returns, EvX a task panics); any interleaving that the
                        guards admit is a run: this is the freedom of frame delays and reordering
     names_ok tr        every looked-up name is a name of the quantifier: the bytes of a Rust String
                        (valid UTF-8) without the delimiter byte b' '
     records_ok cfg     the registered addresses are four bytes
     server_table cfg   the table the responder tasks read; reg_table cfg the registered records
     as_is / repaired   the tree as it is (recv(80); built-in records inserted over registered ones)
                        and with .cache/c20/fix.patch (whole datagram; built-ins only when absent)
   The theorems hold for every configuration (both variants); the two _refuted theorems show what
   the as_is variant does to registered names of 25 bytes and more and to the two built-in names. *)
From Elvis Require Import Model.Base Model.AppBytes Model.Dns Model.DnsProto Proofs.DnsProtoFacts.
Local Open Scope Z_scope.

(* every address a lookup returns, to any client, in any run, is the server's address for the name *)
Theorem C20_answer : forall cfg tr st, records_ok cfg = true -> run cfg tr st -> names_ok tr ->
  forall c h n a, In (EvR c h n a) tr -> tbl_get (server_table cfg) n = Some a.
Proof. exact answer_thm. Qed.
Print Assumptions C20_answer.

(* ... which is the registered address, unless a built-in record of the as_is server overrides it *)
Theorem C20_answer_registered : forall cfg tr st, records_ok cfg = true -> run cfg tr st -> names_ok tr ->
  forall c h n a a', In (EvR c h n a) tr -> tbl_get (reg_table cfg) n = Some a' ->
  cfg_builtin_wins cfg = false \/ (n <> builtin1_name /\ n <> builtin2_name) -> a = a'.
Proof. exact answer_registered. Qed.
Print Assumptions C20_answer_registered.

(* no task panics when every looked-up name has a record and its query fits the server's read *)
Theorem C20_no_crash : forall cfg tr, records_ok cfg = true ->
  forall st, run cfg tr st -> (forall c h n, In (EvL c h n) tr -> good3 cfg n = true) ->
  s_dead st = None /\ forall site, ~ In (EvX site) tr.
Proof. exact no_crash. Qed.
Print Assumptions C20_no_crash.

(* the query for n fits recv(80) exactly when n has at most 24 bytes; the repaired read has no bound *)
Theorem C20_fits_threshold : forall records conn n,
  fits (as_is records conn) n = true <-> (length n <= 24)%nat.
Proof. exact fits_as_is. Qed.
Print Assumptions C20_fits_threshold.
Theorem C20_fits_repaired : forall records conn n, fits (repaired records conn) n = true.
Proof. exact fits_repaired. Qed.
Print Assumptions C20_fits_repaired.

(* the responder on a query that fits / does not fit *)
Theorem C20_server_respond : forall cfg id n, name_ok n = true -> 0 <= id < 65536 -> fits cfg n = true ->
  server_respond cfg (request_bytes id n) =
  match tbl_get (server_table cfg) n with
  | Some a => Ok (response_bytes id n a)
  | None => Panic 141
  end.
Proof. exact server_respond_fits. Qed.
Print Assumptions C20_server_respond.
Theorem C20_server_respond_too_long : forall cfg id n, name_ok n = true -> 0 <= id < 65536 ->
  fits cfg n = false -> server_respond cfg (request_bytes id n) = Panic 61.
Proof. exact server_respond_too_long. Qed.
Print Assumptions C20_server_respond_too_long.

(* liveness, canonical round: in any reachable state, a waiting lookup of such a name returns the
   server's address after at most two further labels (its query leaves, the reply leaves), whatever
   else is in flight - provided the accept loop has not ended (DnsServer::new(n) counts
   connections) and the client has a port left *)
Theorem C20_progress : forall cfg tr st c h l, records_ok cfg = true -> run cfg tr st ->
  (forall c h n, In (EvL c h n) tr -> good3 cfg n = true) ->
  find_look h (c_looks (getc st c)) = Some l ->
  s_accepted st < conn_limit cfg ->
  (exists p, 49152 <= p <= 65535 /\ find_sock p (c_socks (getc st c)) = None) ->
  exists evs a st', (length evs <= 2)%nat /\
    run cfg (tr ++ evs ++ [EvR c h (l_name l) a]) st' /\
    tbl_get (server_table cfg) (l_name l) = Some a.
Proof. exact progress_run. Qed.
Print Assumptions C20_progress.
Theorem C20_progress_example :
  let cfg := as_is [([97; 46; 98], [10; 0; 0; 1])] 1 in
  let n := [97; 46; 98] in
  exists st, run cfg [EvL 0 0 n] st /\ good3 cfg n = true /\
    find_look 0 (c_looks (getc st 0)) = Some (mkLookup 0 n Miss) /\
    s_accepted st < conn_limit cfg /\ find_sock 49152 (c_socks (getc st 0)) = None.
Proof. exact progress_example. Qed.
Print Assumptions C20_progress_example.

(* REFUTED on the tree as it is: a registered 25-byte name; its first query kills the process
   (dns_server.rs l.61), and no run ever resolves a name of 25 bytes or more *)
Theorem C20_answer_refuted_long_name :
  let cfg := as_is [(name25, [10; 0; 0; 1])] 4 in
  records_ok cfg = true /\ name_ok name25 = true /\
  tbl_get (reg_table cfg) name25 = Some [10; 0; 0; 1] /\
  exists st, run cfg [EvL 0 0 name25; EvQ 0 49152 7 name25; EvX 61] st /\ s_dead st = Some 61.
Proof. exact long_name_crashes. Qed.
Print Assumptions C20_answer_refuted_long_name.
Theorem C20_long_name_never_resolved : forall cfg tr st n, records_ok cfg = true -> run cfg tr st ->
  names_ok tr -> cfg_recv_cap cfg = Some 80 -> (25 <= length n)%nat ->
  forall c h a, ~ In (EvR c h n a) tr.
Proof. exact long_name_never_resolved. Qed.
Print Assumptions C20_long_name_never_resolved.

(* REFUTED on the tree as it is: a record registered for "google.com" is answered with the built-in
   address 123.45.67.60 *)
Theorem C20_answer_refuted_builtin :
  let cfg := as_is [(builtin2_name, [1; 2; 3; 4])] 1 in
  records_ok cfg = true /\ name_ok builtin2_name = true /\
  tbl_get (reg_table cfg) builtin2_name = Some [1; 2; 3; 4] /\
  exists st, run cfg [EvL 0 0 builtin2_name; EvQ 0 49152 7 builtin2_name;
                      EvA 0 49152 (response_bytes 7 builtin2_name builtin2_addr);
                      EvR 0 0 builtin2_name builtin2_addr] st /\
             s_dead st = None /\ builtin2_addr <> [1; 2; 3; 4].
Proof. exact builtin_overrides_registered. Qed.
Print Assumptions C20_answer_refuted_builtin.

(* the hypotheses of the positive theorems are satisfiable by a run with a resolution and a cached lookup *)
Theorem C20_answer_example :
  let cfg := as_is [([97; 46; 98], [10; 0; 0; 1])] 1 in
  let tr := [EvL 0 0 [97; 46; 98]; EvQ 0 49152 7 [97; 46; 98];
             EvA 0 49152 (response_bytes 7 [97; 46; 98] [10; 0; 0; 1]);
             EvR 0 0 [97; 46; 98] [10; 0; 0; 1]; EvL 0 1 [97; 46; 98]; EvR 0 1 [97; 46; 98] [10; 0; 0; 1]] in
  records_ok cfg = true /\ names_ok tr /\ exists st, run cfg tr st.
Proof. exact answer_example. Qed.
Print Assumptions C20_answer_example.

(* the address a lookup returns comes from the cache filled by an earlier return of that name to
   that client, or from a reply sent to a socket of this client in answer to ITS query for that
   name: the reply carries the identifier and the name of that query (the client itself compares
   nothing: the pairing is the socket's address and port) *)
Theorem C20_echo : forall cfg t1 c h n a t2 st, records_ok cfg = true ->
  run cfg (t1 ++ EvR c h n a :: t2) st -> names_ok (t1 ++ EvR c h n a :: t2) ->
  (exists h', In (EvR c h' n a) t1) \/
  (exists p id bytes m, In (EvQ c p id n) t1 /\ In (EvA c p bytes) t1 /\
     dns_from_bytes bytes = Ok (m, []) /\ d_id (m_header m) = id /\
     d_properties (m_header m) = 32768 /\ q_qname (m_question m) = n /\
     r_name (m_answer m) = n /\ r_rdata (m_answer m) = a).
Proof. exact echo_accept. Qed.
Print Assumptions C20_echo.

(* every reply on the network answers an earlier query from the socket it is addressed to *)
Theorem C20_echo_reply : forall cfg t1 c p bytes t2 st, records_ok cfg = true ->
  run cfg (t1 ++ EvA c p bytes :: t2) st -> names_ok (t1 ++ EvA c p bytes :: t2) ->
  exists id n a m, In (EvQ c p id n) t1 /\ dns_from_bytes bytes = Ok (m, []) /\
    d_id (m_header m) = id /\ d_properties (m_header m) = 32768 /\ q_qname (m_question m) = n /\
    r_name (m_answer m) = n /\ r_rdata (m_answer m) = a /\ tbl_get (server_table cfg) n = Some a.
Proof. exact echo_reply. Qed.
Print Assumptions C20_echo_reply.

(* a client sends at most as many queries for a name as it started lookups of that name before the
   name was first returned to it: lookups that start after a successful resolution send nothing *)
Theorem C20_cache_silent : forall cfg tr st, records_ok cfg = true -> run cfg tr st -> names_ok tr ->
  forall c n, count_Q c n tr <= early_lookups c n tr.
Proof. exact cache_silent_count. Qed.
Print Assumptions C20_cache_silent.

(* after a return of n to c, a lookup of n by c touches no socket, no owed query, no cache and not
   the server, and the one thing it can do next is return the same address *)
Theorem C20_cache_silent_hit : forall cfg t1 s1 c h0 n a h, records_ok cfg = true -> run cfg t1 s1 ->
  names_ok t1 -> In (EvR c h0 n a) t1 -> s_dead s1 = None ->
  exists s2, step cfg s1 (EvL c h n) = Some s2 /\
    (forall c', c_owed (getc s2 c') = c_owed (getc s1 c') /\ c_socks (getc s2 c') = c_socks (getc s1 c') /\
                c_cache (getc s2 c') = c_cache (getc s1 c')) /\
    s_accepted s2 = s_accepted s1 /\
    (forall a', step cfg s2 (EvR c h n a') <> None -> a' = a) /\
    step cfg s2 (EvR c h n a) <> None.
Proof. exact cache_silent_hit. Qed.
Print Assumptions C20_cache_silent_hit.

(* soundness of the executable validator that is run on the implementation's traces *)
Theorem C20_validate_sound : forall cfg tr en finals, records_ok cfg = true -> names_okb tr = true ->
  validate cfg tr en finals = true ->
  (forall c h n a, In (EvR c h n a) tr -> tbl_get (server_table cfg) n = Some a) /\
  (forall t1 c p bytes t2, tr = t1 ++ EvA c p bytes :: t2 ->
     exists id n a m, In (EvQ c p id n) t1 /\ dns_from_bytes bytes = Ok (m, []) /\
       d_id (m_header m) = id /\ d_properties (m_header m) = 32768 /\ q_qname (m_question m) = n /\
       r_name (m_answer m) = n /\ r_rdata (m_answer m) = a /\ tbl_get (server_table cfg) n = Some a) /\
  (forall t1 c h n a t2, tr = t1 ++ EvR c h n a :: t2 ->
     (exists h', In (EvR c h' n a) t1) \/
     (exists p id bytes m, In (EvQ c p id n) t1 /\ In (EvA c p bytes) t1 /\
        dns_from_bytes bytes = Ok (m, []) /\ d_id (m_header m) = id /\
        d_properties (m_header m) = 32768 /\ q_qname (m_question m) = n /\
        r_name (m_answer m) = n /\ r_rdata (m_answer m) = a)) /\
  (forall c n, count_Q c n tr <= early_lookups c n tr) /\
  (en = EndDone -> forall c n a, In (c, n, Some a) finals -> tbl_get (server_table cfg) n = Some a).
Proof. exact validate_sound. Qed.
Print Assumptions C20_validate_sound.

(* an accepted trace is a trace of the transition system, with the model's ending *)
Theorem C20_validate_run : forall cfg tr en finals, validate cfg tr en finals = true ->
  exists st, run cfg tr st /\
    match en with
    | EndDone => s_dead st = None /\ all_returned st = true /\ finals_ok st finals = true
    | EndCrash => exists site, s_dead st = Some site
    | EndHang => s_dead st = None /\ all_returned st = false /\ starved cfg st = true
    end.
Proof. exact validate_run. Qed.
Print Assumptions C20_validate_run.

(* the validator accepts a real trace and rejects a query for a cached name *)
Theorem C20_validate_example :
  let cfg := as_is [([97; 46; 98], [10; 0; 0; 1])] 1 in
  let tr := [EvL 0 0 [97; 46; 98]; EvQ 0 49152 7 [97; 46; 98];
             EvA 0 49152 (response_bytes 7 [97; 46; 98] [10; 0; 0; 1]);
             EvR 0 0 [97; 46; 98] [10; 0; 0; 1]; EvL 0 1 [97; 46; 98]; EvR 0 1 [97; 46; 98] [10; 0; 0; 1]] in
  validate cfg tr EndDone [(0, [97; 46; 98], Some [10; 0; 0; 1]); (1, [97; 46; 98], None)] = true /\
  names_okb tr = true /\
  validate cfg (tr ++ [EvL 0 2 [97; 46; 98]; EvQ 0 49153 8 [97; 46; 98]]) EndHang [] = false.
Proof. exact validate_example. Qed.
Print Assumptions C20_validate_example.

(* the resolver's port allocator hands out distinct ports; its 16384th call panics (u16 overflow) *)
Theorem C20_ephemeral_port : forall k p k', ephemeral_port k = Ok (p, k') -> p = k /\ k' = k + 1 /\ k' <= 65535.
Proof. exact ephemeral_port_fresh. Qed.
Print Assumptions C20_ephemeral_port.
Theorem C20_remark_port_counter_overflow_panics : ephemeral_port 65535 = Panic 2096.
Proof. exact ephemeral_port_overflow. Qed.
Print Assumptions C20_remark_port_counter_overflow_panics.
