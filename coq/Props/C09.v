(* C09 - route lookup is longest-prefix match over consistent subnet arithmetic.
   Property theorems only; each is closed by [exact lemma]; statements are pinned.

   Vocabulary (defined in Proofs/SubnetFacts.v, Proofs/IpTableFacts.v):
     prefix_mask k   = 2^32 - 2^(32-k)                 the /k mask
     valid_mask m    = exists k <= 32, m = prefix_mask k
     upclosed m      = the set bits of m (below bit 32) are closed upwards ("no 0 between the 1s")
     masklen n       = popcount (net_mask n)           Rust: n.mask().count_ones()
     wf_net n        = valid mask, id < 2^32, id land mask = id : exactly the Ipv4Net values the
                       public constructors can build (the fields are private)
     find t k        = the value bound to network k in table t
     denote ops m    = the finite map obtained from m by the history ops (upd = point update)
     op_ok o         = the arguments of o are values a caller can pass (constructible networks,
                       u32 addresses; remove_cidr, which panics by contract on malformed text,
                       gets text that parses)                                                  *)
From Coq Require Import NArith.
From Elvis Require Import Model.Base Model.Subnet Model.IpTable Proofs.SubnetFacts Proofs.IpTableFacts.
Local Open Scope N_scope.

(* ------------------------------------------------------------------ masks *)

(* mask validity:
   1. from_bitcount never panics (all five shift / subtraction / assert sites are unreachable)
      and builds the clamped prefix mask;
   2. count_ones of the /k mask is k;
   3. Ipv4Mask::try_from accepts exactly the prefix masks and returns its argument;
   4. it never panics *)
Theorem C09_mask_valid_iff :
  (forall n, from_bitcount n = Ok (prefix_mask (N.min n 32))) /\
  (forall k, k <= 32 -> popcount (prefix_mask k) = k) /\
  (forall m r, mask_try_from m = Ok r <-> r = m /\ valid_mask m) /\
  (forall m, mask_try_from m = Ok m \/ mask_try_from m = Err err_mask_invalid).
Proof. exact (conj from_bitcount_spec (conj popcount_prefix_mask (conj mask_try_from_ok_iff mask_try_from_never_panics))). Qed.
Print Assumptions C09_mask_valid_iff.

(* 1. bit-level reading of validity: a u32 whose ones are contiguous from the top;
   2. on valid masks the u32 order used by the table's comparator is the order of the lengths *)
Theorem C09_mask_valid_bits :
  (forall m, valid_mask m <-> m < two32 /\ upclosed m) /\
  (forall m m', valid_mask m -> valid_mask m' ->
  (m <= m' <-> popcount m <= popcount m')).
Proof. exact (conj valid_mask_bits valid_mask_le_popcount). Qed.
Print Assumptions C09_mask_valid_bits.

(* ------------------------------------------------------------------ addresses *)

(* the derived order on Ipv4Address([u8;4]) is the numeric order of to_u32, and the byte view
   round-trips (licenses modelling an address by its u32) *)
Theorem C09_address_order :
  (forall a b, a < two32 -> b < two32 ->
  lex_compare (to_be_bytes a) (to_be_bytes b) = (a ?= b)) /\
  (forall a, a < two32 -> from_be_bytes (to_be_bytes a) = a).
Proof. exact (conj be_bytes_order be_bytes_roundtrip). Qed.
Print Assumptions C09_address_order.

(* ------------------------------------------------------------------ networks *)

(* every constructor yields a well-formed network: the aligned block of the clamped length
   around the given address (1. new_short, 2. new with a prefix mask); 3. a well-formed network
   is an aligned block of size 2^(32 - masklen) *)
Theorem C09_constructors_are_blocks :
  (forall ip len, ip < two32 ->
  exists n, net_new_short ip len = Ok n /\ wf_net n /\ masklen n = N.min len 32) /\
  (forall ip k, ip < two32 -> k <= 32 ->
  net_new ip (prefix_mask k) = mkNet (ip - ip mod 2 ^ (32 - k)) (prefix_mask k)) /\
  (forall n, wf_net n ->
  net_mask n = prefix_mask (masklen n) /\ net_id n mod 2 ^ (32 - masklen n) = 0).
Proof. exact (conj net_new_short_wf (conj net_new_spec wf_net_aligned)). Qed.
Print Assumptions C09_constructors_are_blocks.

(* broadcast never overflows (1, 2); it is the last address of the block (1) *)
Theorem C09_broadcast_block :
  (forall n, wf_net n ->
  broadcast n = Ok (net_id n + 2 ^ (32 - masklen n) - 1)) /\
  (forall n, wf_net n ->
  exists b, broadcast n = Ok b /\ net_id n <= b < two32).
Proof. exact (conj broadcast_block broadcast_total). Qed.
Print Assumptions C09_broadcast_block.

(* a network contains exactly the addresses from its id to its broadcast address *)
Theorem C09_contains_iff_range : forall n a b, wf_net n -> a < two32 -> broadcast n = Ok b ->
  (contains n a = true <-> net_id n <= a <= b).
Proof. exact contains_iff_range. Qed.
Print Assumptions C09_contains_iff_range.

(* 1. two networks overlap exactly when their ranges intersect,
   2. equivalently when some address is contained in both;  3. overlaps never panics *)
Theorem C09_overlaps_iff_ranges_meet :
  (forall n1 n2 b1 b2, wf_net n1 -> wf_net n2 ->
  broadcast n1 = Ok b1 -> broadcast n2 = Ok b2 ->
  (overlaps n1 n2 = Ok true <-> exists x, net_id n1 <= x <= b1 /\ net_id n2 <= x <= b2)) /\
  (forall n1 n2, wf_net n1 -> wf_net n2 ->
  (overlaps n1 n2 = Ok true <->
   exists x, x < two32 /\ contains n1 x = true /\ contains n2 x = true)) /\
  (forall n1 n2, wf_net n1 -> wf_net n2 ->
  exists r, overlaps n1 n2 = Ok r).
Proof. exact (conj overlaps_iff_ranges_meet (conj overlaps_iff_common_address overlaps_total)). Qed.
Print Assumptions C09_overlaps_iff_ranges_meet.

(* ------------------------------------------------------------------ ranges *)

(* an address range converts to a network exactly when it is an aligned power-of-two block,
   and then to that block *)
Theorem C09_range_to_net_iff : forall lo hi n, lo < two32 -> hi < two32 ->
  (try_from_range lo hi = Ok n <->
   exists h, h <= 32 /\ lo <= hi /\ hi - lo + 1 = 2 ^ h /\ lo mod 2 ^ h = 0 /\
             n = mkNet lo (two32 - 2 ^ h)).
Proof. exact range_to_net_iff. Qed.
Print Assumptions C09_range_to_net_iff.

(* the complete case analysis, including which error is reported; no panic *)
Theorem C09_range_cases : forall lo hi, lo < two32 -> hi < two32 ->
  (hi < lo /\ try_from_range lo hi = Err err_range_empty) \/
  (lo <= hi /\ (forall h, h <= 32 -> hi - lo + 1 <> 2 ^ h) /\
     try_from_range lo hi = Err err_range_size) \/
  (exists h, h <= 32 /\ lo <= hi /\ hi - lo + 1 = 2 ^ h /\ lo mod 2 ^ h <> 0 /\
     try_from_range lo hi = Err err_range_start) \/
  (exists h, h <= 32 /\ lo <= hi /\ hi - lo + 1 = 2 ^ h /\ lo mod 2 ^ h = 0 /\
     try_from_range lo hi = Ok (mkNet lo (two32 - 2 ^ h))).
Proof. exact try_from_range_cases. Qed.
Print Assumptions C09_range_cases.

Theorem C09_range_of_net_roundtrip : forall n b, wf_net n -> broadcast n = Ok b ->
  try_from_range (net_id n) b = Ok n.
Proof. exact range_of_net_roundtrip. Qed.
Print Assumptions C09_range_of_net_roundtrip.

(* ------------------------------------------------------------------ CIDR text *)

(* 1. the text "o1.o2.o3.o4/len" parses to the address and the /len mask it denotes,
   2. and from_cidr to the network (aligned block) it denotes *)
Theorem C09_cidr_denotes :
  (forall o1 o2 o3 o4 len,
  o1 <= 255 -> o2 <= 255 -> o3 <= 255 -> o4 <= 255 -> len <= 32 ->
  cidr_to_ip (render_cidr o1 o2 o3 o4 len) = Ok (from_be_bytes [o1; o2; o3; o4], prefix_mask len)) /\
  (forall o1 o2 o3 o4 len,
  o1 <= 255 -> o2 <= 255 -> o3 <= 255 -> o4 <= 255 -> len <= 32 ->
  let ip := from_be_bytes [o1; o2; o3; o4] in
  from_cidr (render_cidr o1 o2 o3 o4 len) = Ok (mkNet (ip - ip mod 2 ^ (32 - len)) (prefix_mask len))).
Proof. exact (conj cidr_to_ip_denotes from_cidr_denotes). Qed.
Print Assumptions C09_cidr_denotes.

(* whatever text is given: no panic, and anything accepted is a well-formed network *)
Theorem C09_from_cidr_sound : forall s,
  (exists n, from_cidr s = Ok n /\ wf_net n) \/ (exists e, from_cidr s = Err e).
Proof. exact from_cidr_sound. Qed.
Print Assumptions C09_from_cidr_sound.

(* OBSERVATION (outside the property): cidr_to_ip also accepts texts that are not CIDR notation:
   "1.2.3.4/33" (as /32), "1.2.3.4/8/x", "1.2.3.4/+8", "1.2.3.4/008" (all as /8) *)
Theorem C09_cidr_leniencies_observed :
  cidr_to_ip [49;46;50;46;51;46;52;47;51;51] = Ok (16909060, prefix_mask 32) /\
  cidr_to_ip [49;46;50;46;51;46;52;47;56;47;120] = Ok (16909060, prefix_mask 8) /\
  cidr_to_ip [49;46;50;46;51;46;52;47;43;56] = Ok (16909060, prefix_mask 8) /\
  cidr_to_ip [49;46;50;46;51;46;52;47;48;48;56] = Ok (16909060, prefix_mask 8).
Proof. exact cidr_leniencies. Qed.
Print Assumptions C09_cidr_leniencies_observed.

(* ------------------------------------------------------------------ the table is a finite map *)

(* 1. one step: never panics on callable arguments, keeps the invariant, is the point update of
      the finite map, and returns the previous binding (add / remove / remove_direct);
   2. any history of add / remove / add_direct / remove_direct / add_cidr / remove_cidr from the
      empty table has the finite-map semantics (last add wins by definition of upd) *)
Theorem C09_ops_denote_map :
  (forall (V : Type) (t : table V) (o : op V), tbl_inv t -> op_ok o ->
  exists t', step_obs t o = Ok (t', returned t o) /\ tbl_inv t' /\
             forall k, find t' k = denote_step (find t) o k) /\
  (forall (V : Type) (ops : list (op V)), Forall op_ok ops ->
  exists t, run ops [] = Ok t /\ tbl_inv t /\ forall k, find t k = denote ops fempty k).
Proof. exact (conj (@step_obs_spec) (@run_from_empty)). Qed.
Print Assumptions C09_ops_denote_map.

(* 1. the table is a function of the denoted map: histories with the same meaning (reordered,
      with repeated or cancelled steps) end in the very same table;
   2. adding a network twice replaces its value;
   3. adds / removes of different networks commute, anywhere in a history *)
Theorem C09_history_order_irrelevant :
  (forall (V : Type) (ops1 ops2 : list (op V)),
  Forall op_ok ops1 -> Forall op_ok ops2 ->
  (forall k, denote ops1 fempty k = denote ops2 fempty k) -> run ops1 [] = run ops2 []) /\
  (forall (V : Type) (ops : list (op V)) n (v1 v2 : V),
  Forall op_ok ops -> wf_net n ->
  run (ops ++ [OAdd n v1; OAdd n v2]) [] = run (ops ++ [OAdd n v2]) []) /\
  (forall (V : Type) (ops : list (op V)) n1 (o1 : option V) n2 (o2 : option V) rest,
  Forall op_ok ops -> Forall op_ok rest -> wf_net n1 -> wf_net n2 -> n1 <> n2 ->
  let mk (n : net) (o : option V) := match o with Some v => OAdd n v | None => ORemove n end in
  run (ops ++ [mk n1 o1; mk n2 o2] ++ rest) [] = run (ops ++ [mk n2 o2; mk n1 o1] ++ rest) []).
Proof. exact (conj (@run_canonical) (conj (@add_twice_replaces) (@unrelated_steps_commute))). Qed.
Print Assumptions C09_history_order_irrelevant.

(* the one documented panic *)
Theorem C09_remove_cidr_malformed_panics : forall (V : Type) (t : table V) s e,
  from_cidr s = Err e -> step t (ORemoveCidr s) = Panic site_remove_cidr.
Proof. exact @step_remove_cidr_malformed. Qed.
Print Assumptions C09_remove_cidr_malformed_panics.

(* ------------------------------------------------------------------ lookup is longest-prefix match *)

(* table level: 1. a value is returned exactly when it belongs to a containing network of
   maximal mask length;  2. nothing is returned exactly when no network contains the address *)
Theorem C09_lpm :
  (forall (V : Type) (t : table V) a (v : V), tbl_inv t ->
  (get_recipient t a = Some v <->
   exists n, In (n, v) (tbl_iter t) /\ contains n a = true /\
             forall n' v', In (n', v') (tbl_iter t) -> contains n' a = true -> masklen n' <= masklen n)) /\
  (forall (V : Type) (t : table V) a,
  get_recipient t a = None <-> forall n (v : V), In (n, v) (tbl_iter t) -> contains n a = false).
Proof. exact (conj (@lpm_some) (@get_recipient_none)). Qed.
Print Assumptions C09_lpm.

(* uniqueness of the winner *)
Theorem C09_winner_unique : forall n n' a, wf_net n -> wf_net n' ->
  contains n a = true -> contains n' a = true -> masklen n = masklen n' -> n = n'.
Proof. exact contains_same_len. Qed.
Print Assumptions C09_winner_unique.

(* history level: 1. after ANY history the lookup is the longest-prefix match over the finite
   map the history denotes, hence independent of the order of adds and removes;
   2. iteration yields exactly the bindings of the denoted map, in the comparator's order *)
Theorem C09_lpm_history :
  (forall (V : Type) (ops : list (op V)), Forall op_ok ops ->
  exists t, run ops [] = Ok t /\
    (forall a (v : V),
       get_recipient t a = Some v <->
       exists n, denote ops fempty n = Some v /\ contains n a = true /\
                 forall n' v', denote ops fempty n' = Some v' -> contains n' a = true ->
                               masklen n' <= masklen n) /\
    (forall a,
       get_recipient t a = None <->
       forall n v, denote ops fempty n = Some v -> contains n a = false)) /\
  (forall (V : Type) (ops : list (op V)), Forall op_ok ops ->
  exists t, run ops [] = Ok t /\ sorted (tbl_iter t) /\
    forall n (v : V), In (n, v) (tbl_iter t) <-> denote ops fempty n = Some v).
Proof. exact (conj (@lpm_history) (@iter_history)). Qed.
Print Assumptions C09_lpm_history.

(* the hypotheses are satisfiable *)
Example C09_wf_net_inhabited : wf_net (mkNet 167772160 (prefix_mask 8)).
Proof. exact wf_net_example. Qed.
Example C09_tbl_inv_inhabited : tbl_inv ([] : table N).
Proof. exact tbl_inv_nil. Qed.
