(* C04 - datagrams reach exactly the listener bound to their address and port.
   Property theorems only; each is closed by [exact lemma]; statements are pinned.

   Vocabulary (Model/Demux.v, Proofs/DemuxFacts.v):
     tbl              a binding table (association list read by first match): (address, port) -> application
                      for Udp.listen_bindings, (address, protocol number) -> upstream for Ipv4.listen_bindings
     tget b k         the entry of key k;   ANY = 0.0.0.0, BCAST = 255.255.255.255
     tlookup b (a,p)  what Udp::demux / Ipv4::demux compute: the entry (a,p), else the entry (ANY,p)
     mstate           one machine: udp_b, ip_b, has_arp, arp_ips, protos (protocols present)
     udp_listen s app e   Udp::listen: (result, state after)
     lop              a bind operation: LUdp (Udp::listen), LOpen (Udp::open_and_listen), LRaw (a non-UDP
                      upstream binding protocol 17 directly at the IPv4 layer)
     udp_op present op    op is a UDP bind by an application that exists on the machine
     mcfg / final_state   a machine description and its state after running its bind operations in order
     dgram P          {d_src; d_dst : endpoint; d_payload : P};  plen : P -> Z the payload length
     udp_send plen mtu mac d   UdpSession::send ; Ipv4Session::send ; send_pci: SOk link-destination | error
     ip_demux s 17 d  the receive pipeline Ipv4::demux ; Ipv4Session::receive ; Udp::demux ;
                      UdpSession::receive on a machine in state s: Deliver app local remote payload | drops
     events_of s m d  the recorder events that arrival of d on machine m produces
     validate plen peqb c tr   the executable trace validator (0 = accept)

   Claim: proof of the decision logic (for ALL binding tables, machines, datagrams, arrival orders of
   the model) + validation of the running stack's traces.  Partial with respect to the property's
   "arbitrary arrival orders" on the real runtime: tokio scheduling, ARP resolution and the link are not
   modelled; the receive pipeline is a pure function of the (static) bindings, which is what makes
   arrival order irrelevant in the model (C04_order_insensitive). *)
From Coq Require Import ZArith List Permutation.
From Elvis Require Import Model.Base Model.Demux Proofs.DemuxFacts.
Import ListNotations.
Local Open Scope Z_scope.

(* an exact binding always wins over the wildcard *)
Theorem C04_lookup_exact_wins : forall (b : tbl) a p x,
  tget b (a, p) = Some x -> tlookup b (a, p) = Some x.
Proof. exact lookup_exact_wins. Qed.
Print Assumptions C04_lookup_exact_wins.

(* the listener found is the exact binding or, absent one, the wildcard binding of the same port *)
Theorem C04_lookup_sound : forall (b : tbl) a p x,
  tlookup b (a, p) = Some x ->
  tget b (a, p) = Some x \/ (tget b (a, p) = None /\ tget b (ANY, p) = Some x).
Proof. exact lookup_sound. Qed.
Print Assumptions C04_lookup_sound.

(* ... hence it was bound with the SAME port and with the destination address or 0.0.0.0 ... *)
Theorem C04_lookup_binding_key : forall (b : tbl) a p x,
  tlookup b (a, p) = Some x -> exists a', (a' = a \/ a' = ANY) /\ In ((a', p), x) b.
Proof. exact lookup_binding_key. Qed.
Print Assumptions C04_lookup_binding_key.

(* ... and a binding with a different port, or with a different specific address, never influences
   who receives a datagram for (a,p): isolation *)
Theorem C04_lookup_ignores_other : forall (b : tbl) a p a' p' y,
  (p' <> p \/ (a' <> a /\ a' <> ANY)) ->
  tlookup (((a', p'), y) :: b) (a, p) = tlookup b (a, p).
Proof. exact lookup_ignores_other. Qed.
Print Assumptions C04_lookup_ignores_other.

(* no binding at all: neither exact nor wildcard *)
Theorem C04_lookup_none : forall (b : tbl) a p,
  tlookup b (a, p) = None <-> tget b (a, p) = None /\ tget b (ANY, p) = None.
Proof. exact lookup_none. Qed.
Print Assumptions C04_lookup_none.

(* a second bind of an endpoint already bound is refused and changes nothing (any state) *)
Theorem C04_rebind_refused : forall s up e x,
  tget (udp_b s) e = Some x -> udp_listen s up e = (LExisting, s).
Proof. exact rebind_refused. Qed.
Print Assumptions C04_rebind_refused.

(* a first bind succeeds, installs exactly that binding and leaves every other endpoint alone *)
Theorem C04_bind_vacant : forall s app a p,
  wf s -> tget (udp_b s) (a, p) = None ->
  fst (udp_listen s app (a, p)) = LOk /\
  tget (udp_b (snd (udp_listen s app (a, p)))) (a, p) = Some app /\
  (forall k, k <> (a, p) -> tget (udp_b (snd (udp_listen s app (a, p)))) k = tget (udp_b s) k).
Proof. exact udp_listen_then_bound. Qed.
Print Assumptions C04_bind_vacant.

(* every state a machine reaches by UDP binds of its own applications is well formed *)
Theorem C04_reachable_wf : forall mc,
  zmem UDP_TID (mc_protos mc) = true -> Forall (udp_op (mc_protos mc)) (mc_listens mc) ->
  wf (final_state mc).
Proof. exact wf_final_state. Qed.
Print Assumptions C04_reachable_wf.

(* end to end, for every machine description, every sequence of binds, every datagram within the MTU
   limit: the send succeeds, and on ANY machine the datagram reaches it is handed to the application the
   lookup names, payload unchanged, local = destination, remote = true source; without a binding it is
   dropped *)
Theorem C04_end_to_end : forall (P : Type) (plen : P -> Z) mc (d : dgram P) mtu mac,
  zmem UDP_TID (mc_protos mc) = true -> Forall (udp_op (mc_protos mc)) (mc_listens mc) ->
  0 <= plen (d_payload d) <= mtu - 28 -> mtu <= 65535 ->
  (exists l, udp_send plen mtu mac d = SOk l) /\
  (forall app, tlookup (udp_b (final_state mc)) (d_dst d) = Some app ->
     ip_demux (final_state mc) UDP_PROTO d = Deliver app (d_dst d) (d_src d) (d_payload d)) /\
  (tlookup (udp_b (final_state mc)) (d_dst d) = None ->
     ip_demux (final_state mc) UDP_PROTO d = DropIpNoBinding \/
     ip_demux (final_state mc) UDP_PROTO d = DropUdpNoBinding).
Proof. exact end_to_end. Qed.
Print Assumptions C04_end_to_end.

(* the same through any wire format whose decoder inverts its encoder on datagrams of legal size
   (the byte-level round trips are the codec properties C08/C18) *)
Theorem C04_end_to_end_wire : forall (P : Type) (plen : P -> Z) (W : Type)
  (encode : dgram P -> W) (decode : W -> option (Z * dgram P)),
  (forall d, 0 <= plen (d_payload d) <= 65507 -> decode (encode d) = Some (UDP_PROTO, d)) ->
  forall s (d : dgram P) app,
  wf s -> 0 <= plen (d_payload d) <= 65507 -> tlookup (udp_b s) (d_dst d) = Some app ->
  wire_receive decode s (encode d) = WOut (Deliver app (d_dst d) (d_src d) (d_payload d)).
Proof. exact wire_end_to_end. Qed.
Print Assumptions C04_end_to_end_wire.

(* one byte more than the MTU allows is refused at the sender (no frame); where a frame goes *)
Theorem C04_send_limit : forall (P : Type) (plen : P -> Z) mtu mac (d : dgram P),
  (mtu - 28 < plen (d_payload d) -> mtu <= 65535 -> is_loopback (fst (d_dst d)) = false ->
   forall l, udp_send plen mtu mac d <> SOk l) /\
  (forall l, udp_send plen mtu mac d = SOk l ->
   l = (if fst (d_dst d) =? BCAST then ToBroadcast
        else if is_loopback (fst (d_dst d)) then ToSelf else ToMac mac)).
Proof. exact (fun P plen mtu mac d => conj (send_over_limit P plen mtu mac d) (send_link_dst P plen mtu mac d)). Qed.
Print Assumptions C04_send_limit.

(* a datagram without a binding produces no event, and the events of all other arrivals are the same
   with or without it: nothing else is disturbed (the receive pipeline has no state to disturb) *)
Theorem C04_unbound_dropped : forall (P : Type) s m l1 (d : dgram P) l2,
  wf s -> tlookup (udp_b s) (d_dst d) = None ->
  events_of s m d = [] /\ deliveries P s m (l1 ++ d :: l2) = deliveries P s m (l1 ++ l2).
Proof. exact (fun P s m l1 d l2 W L => conj (events_of_unbound P s m d W L) (deliveries_drop_unbound P s m l1 d l2 W L)). Qed.
Print Assumptions C04_unbound_dropped.

(* arrival order does not matter *)
Theorem C04_order_insensitive : forall (P : Type) s m (l l' : list (dgram P)),
  Permutation l l' -> Permutation (deliveries P s m l) (deliveries P s m l').
Proof. exact deliveries_order. Qed.
Print Assumptions C04_order_insensitive.

(* soundness of the validator: in an accepted trace the bind results are the model's, the IPv4 frames
   on the link are exactly the datagrams sent (and the answers of the recorders), the delivery events
   are - as multisets - exactly the predicted ones; every delivery event is the one the lookup predicts
   for an arrival (right application, local = destination, remote = true source, payload unchanged),
   and none is missing *)
Theorem C04_validate_sound : forall (P : Type) (plen : P -> Z) (peqb : P -> P -> bool),
  (forall a b, peqb a b = true -> a = b) ->
  forall c tr,
  validate plen peqb c tr = 0 -> machines_wf P c ->
  map listen_codes (c_machines c) = tr_listen tr /\
  Permutation (expected_frames plen peqb c tr) (observed_frames tr) /\
  Permutation (predicted plen peqb c tr) (tr_dlv tr) /\
  (forall e, In e (tr_dlv tr) ->
     exists m d, In (m, d) (arrivals plen peqb c tr) /\
       tlookup (udp_b (state_at c m)) (d_dst d) = Some (e_app e) /\
       e = mkDev 0 (e_app e) m (d_dst d) (d_src d) (d_payload d)) /\
  (forall m d app, In (m, d) (arrivals plen peqb c tr) ->
     tlookup (udp_b (state_at c m)) (d_dst d) = Some app ->
     In (mkDev 0 app m (d_dst d) (d_src d) (d_payload d)) (tr_dlv tr)).
Proof. exact validate_sound. Qed.
Print Assumptions C04_validate_sound.

(* ... and every IPv4 frame of an accepted trace was addressed on the link as Ipv4Session::send decides:
   a datagram for 255.255.255.255 to the broadcast MAC, otherwise to the MAC of the route of the local
   address (all taps when the route has none and the machine has no ARP) *)
Theorem C04_validate_link_dst : forall (P : Type) (plen : P -> Z) (peqb : P -> P -> bool) c tr f,
  validate plen peqb c tr = 0 -> In f (tr_frames tr) -> frame_to_ok peqb c f = true.
Proof. exact validate_frames_to. Qed.
Print Assumptions C04_validate_link_dst.

(* the hypotheses are satisfiable, and the validator is not vacuous: a two-machine scenario (machine 0
   binds application 1 on 10.0.0.1:5000 and application 2 on 0.0.0.0:5000 and 0.0.0.0:5001; machine 1
   broadcasts on the link a datagram for 10.0.0.1:5000 and one for 10.0.0.9:5001) is accepted with the
   right events and rejected (check 5) when the exact binding's event names the wildcard application *)
Theorem C04_example_validate :
  wf (final_state ex_mc0) /\ machines_wf Z ex_cfg /\
  validate (fun n : Z => n) Z.eqb ex_cfg ex_trace_good = 0 /\
  validate (fun n : Z => n) Z.eqb ex_cfg ex_trace_wrong_app = 5 /\
  validate (fun n : Z => n) Z.eqb ex_cfg ex_trace_missing = 5.
Proof. exact example_validate. Qed.
Print Assumptions C04_example_validate.

(* remarks on behaviour of the code as it is, outside the property's universe:
   1. if a non-UDP upstream holds (a, protocol 17) at the IPv4 layer, Udp::listen on (a,p) returns the
      IPv4 error but leaves its own entry behind;
   2. open_and_listen returns an error when the local address has no route, yet the binding is installed;
   3. a datagram to 127.0.0.0/8 is handed to the own tap without the MTU test *)
Theorem C04_remark_as_coded :
  (let s1 := snd (ipv4_listen ex_state0 2 167772161 UDP_PROTO) in
   fst (udp_listen s1 1 (167772161, 5000)) = LIpExists /\
   tget (udp_b (snd (udp_listen s1 1 (167772161, 5000)))) (167772161, 5000) = Some 1) /\
  (fst (run_lop [] ex_state0 (LOpen 1 (167772161, 5000))) = 3 /\
   tget (udp_b (snd (run_lop [] ex_state0 (LOpen 1 (167772161, 5000))))) (167772161, 5000) = Some 1) /\
  udp_send (fun n : Z => n) 100 None (mkDgram (167772161, 1) (2130706433, 2) 5000) = SOk ToSelf.
Proof. exact (conj ip_conflict_leaves_udp_binding (conj open_and_listen_binds_on_open_error loopback_bypasses_mtu)). Qed.
Print Assumptions C04_remark_as_coded.
