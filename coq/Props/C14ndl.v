(* C14, NDL part: no text makes the network description parser panic.  [core_parse] is the model
   of core_parser after the repair .cache/ndl/fix.patch (texts = lists of Unicode scalar values;
   a file that is not UTF-8 is outside the model: fs::read_to_string(..).expect(..) panics on it).
   The unchanged tree is refuted by two independent witnesses. *)
From Elvis Require Import Model.Base Model.Ndl Proofs.NdlFacts.

Theorem C14_ndl_total : forall txt,
  (exists s, core_parse txt = Ok s) \/ (exists e, core_parse txt = Err e).
Proof. exact core_parse_ok_or_err. Qed.
Print Assumptions C14_ndl_total.

Theorem C14_ndl_never_panics : forall txt site, core_parse txt <> Panic site.
Proof. exact core_parse_never_panics. Qed.
Print Assumptions C14_ndl_never_panics.

(* "[IPtype]": get_type accepts the word, DecType::from has no arm for it *)
Theorem C14_ndl_orig_refuted_iptype : core_parse_orig witness_iptype = Panic SITE_UNIMPL.
Proof. exact core_parse_orig_panics_iptype. Qed.
Print Assumptions C14_ndl_orig_refuted_iptype.

(* "[Networ<U+212A>]": tag_no_case matches the Kelvin sign against 'k' and splits inside it *)
Theorem C14_ndl_orig_refuted_kelvin : core_parse_orig witness_kelvin = Panic SITE_SPLIT.
Proof. exact core_parse_orig_panics_kelvin. Qed.
Print Assumptions C14_ndl_orig_refuted_kelvin.

(* the repaired parser returns errors on both *)
Theorem C14_ndl_fixed_on_witnesses :
  core_parse witness_iptype = Err (ecode E_EXTRA 1) /\ core_parse witness_kelvin = Err (ecode E_DECTYPE (-1)).
Proof. exact core_parse_fixed_on_witnesses. Qed.
Print Assumptions C14_ndl_fixed_on_witnesses.
