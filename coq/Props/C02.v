(* C02 - socket I/O across the full stack is intact, ordered and bounded.
   Property theorems only; each is closed by [exact lemma]; statements are pinned.

   Model: Model/SocketRecv.v (socket.rs recv / recv_msg / accept, socket_session.rs, the routing part of
   socket_api.rs, the hand-off of writes to the TCP session).  A Message is its byte list; the mpsc channel
   between session and socket is a list with its capacity 255.
     recv false = Socket::recv as it is in the repository  (compares with, and takes, the requested [bytes])
     recv true  = the minimal repair /verif/.cache/c02/fix-recv.patch (uses bytes - buf.len())
   [pending s] = everything still readable from socket s, in reading order (stored remainder, then the queue).
   [run fixed evs s] executes a script of pushes (messages arriving from the transport), recv(n), recv_msg and
   set_blocking calls and returns the observations and the final socket.

   What is NOT a theorem here: that the per-write hand-offs reach the TCP session in issue order.  That is the
   hypothesis [fifo arrival = true] of C02_fifo_stream: Socket::send (socket.rs:221) and TcpSession::send
   (tcp_session.rs:157) each tokio::spawn a task per write and the order in which an executor runs freshly
   spawned tasks is not specified (measured: permuted on the multi-thread runtime; see checks/C02.py).
   The TCP transfer itself (the peer's TCP hands up, in order, exactly the sender's outgoing text) is the
   hypothesis [concat pre ++ concat (pushed evs) = outgoing_text arrival]: that is property C01. *)
From Coq Require Import Permutation.
From Elvis Require Import Model.Base Model.SocketRecv Proofs.SocketRecvFacts.

(* ---- a read that asks for at most n bytes never returns more than n (repaired code) *)
Theorem C02_recv_bound : forall (n : nat) (s : sock) (out : bytes) (s' : sock),
  recv true n s = RData out s' -> length out <= n.
Proof. exact recv_bound. Qed.
Print Assumptions C02_recv_bound.

(* ---- the code as it is violates the bound: 2 bytes stored, "cdef" queued, recv(4) returns 6 bytes *)
Theorem C02_recv_bound_refuted : exists (n : nat) (s : sock) (out : bytes) (s' : sock),
  recv false n s = RData out s' /\ n < length out /\
  n = 4 /\ s = mkSock (Some [1%N; 2%N]) [[3%N; 4%N; 5%N; 6%N]] true /\ length out = 6.
Proof. exact recv_bound_refuted. Qed.
Print Assumptions C02_recv_bound_refuted.

(* ---- same for a message longer than what is missing: take(bytes) ignores what is already buffered *)
Theorem C02_recv_bound_refuted_long :
  recv false 4 (mkSock (Some [1%N; 2%N]) [[3%N; 4%N; 5%N; 6%N; 7%N; 8%N; 9%N]] true)
  = RData [1%N; 2%N; 3%N; 4%N; 5%N; 6%N] (mkSock (Some [7%N; 8%N; 9%N]) [] true) /\
  recv true 4 (mkSock (Some [1%N; 2%N]) [[3%N; 4%N; 5%N; 6%N]] true)
  = RData [1%N; 2%N; 3%N; 4%N] (mkSock (Some [5%N; 6%N]) [] true).
Proof. exact recv_bound_refuted_long. Qed.
Print Assumptions C02_recv_bound_refuted_long.

(* ---- one read neither loses, duplicates nor reorders bytes (both variants of recv; a parked call has
        consumed nothing but empty messages; recv never returns an error from a connected socket) *)
Theorem C02_recv_conserves : forall (fixed : bool) (n : nat) (s : sock),
  match recv fixed n s with
  | RData out s' => out ++ pending s' = pending s /\ blocking s' = blocking s
  | RBlock s' => pending s' = pending s /\ blocking s' = blocking s
  | RErr _ => False
  end.
Proof. exact recv_conserves. Qed.
Print Assumptions C02_recv_conserves.

Theorem C02_recv_msg_conserves : forall (s : sock),
  match recv_msg s with
  | RData out s' => out ++ pending s' = pending s /\ blocking s' = blocking s
  | RBlock s' => s' = s
  | RErr s' => s' = s
  end.
Proof. exact recv_msg_conserves. Qed.
Print Assumptions C02_recv_msg_conserves.

(* ---- successive reads, interleaved in any way with arriving messages: what was read, followed by what is
        still readable, is what was readable at the start followed by the accepted arrivals *)
Theorem C02_reads_conserve : forall (fixed : bool) (evs : list ev) (s : sock) (os : list obs) (s' : sock),
  run fixed evs s = (os, s') ->
  concat (map obs_bytes os) ++ pending s' = pending s ++ concat (accepted evs os).
Proof. exact run_conserves. Qed.
Print Assumptions C02_reads_conserve.

Theorem C02_reads_bounded : forall (evs : list ev) (s : sock) (os : list obs) (s' : sock),
  run true evs s = (os, s') ->
  forall n out, In (ORead n out) os -> length out <= n.
Proof. exact reads_bounded. Qed.
Print Assumptions C02_reads_bounded.

(* ---- stream sockets: IF the per-write hand-offs reach the TCP session in issue order (FIFO hypothesis) and
        the TCP hands the outgoing text up to the peer's socket layer unchanged (C01), in any chunking, any of
        it before accept(), THEN what the peer reads (any read sizes, any interleaving, no channel overflow)
        followed by what it can still read is the concatenation of the writes in issue order *)
Theorem C02_fifo_stream :
  forall (fixed : bool) (ws : list bytes) (arrival : list (nat * bytes)) (pre : list bytes)
         (evs : list ev) (s0 : sock) (os : list obs) (s' : sock),
  Permutation arrival (tag ws) ->
  fifo arrival = true ->
  concat pre ++ concat (pushed evs) = outgoing_text arrival ->
  accept_replay pre = Ok s0 ->
  run fixed evs s0 = (os, s') ->
  ~ In OPushFull os ->
  concat (map obs_bytes os) ++ pending s' = concat ws.
Proof. exact fifo_stream. Qed.
Print Assumptions C02_fifo_stream.

Theorem C02_fifo_stream_satisfiable :
  exists fixed ws arrival pre evs s0 os s',
    Permutation arrival (tag ws) /\ fifo arrival = true /\
    concat pre ++ concat (pushed evs) = outgoing_text arrival /\
    accept_replay pre = Ok s0 /\ run fixed evs s0 = (os, s') /\ ~ In OPushFull os /\
    concat (map obs_bytes os) = concat ws /\ ws <> [].
Proof. exact fifo_stream_satisfiable. Qed.
Print Assumptions C02_fifo_stream_satisfiable.

(* ---- the FIFO hypothesis cannot be dropped: two writes handed over in the other order give another stream;
        in general the stream is the concatenation of SOME permutation of the writes (the recorded class) *)
Theorem C02_fifo_needed :
  let ws := [[1%N]; [2%N]] in
  let arrival := [(1, [2%N]); (0, [1%N])] in
  Permutation arrival (tag ws) /\ fifo arrival = false /\ outgoing_text arrival <> concat ws.
Proof. exact reorder_witness. Qed.
Print Assumptions C02_fifo_needed.

Theorem C02_unordered_is_permutation : forall (ws : list bytes) (arrival : list (nat * bytes)),
  Permutation arrival (tag ws) ->
  exists ws', Permutation ws' ws /\ outgoing_text arrival = concat ws'.
Proof. exact any_arrival_is_permutation. Qed.
Print Assumptions C02_unordered_is_permutation.

(* ---- datagram sockets (read with recv_msg): every datagram handed to the application is, whole, one of the
        datagrams the peer sent (dropped ones never appear, a duplicated frame may appear twice), and the
        sequence handed out is a prefix of the sequence that arrived: nothing split, merged or invented *)
Theorem C02_datagram :
  forall (fixed : bool) (sent : list (bytes * fate)) (pre : list bytes) (evs : list ev)
         (s0 : sock) (os : list obs) (s' : sock),
  pre ++ pushed evs = arrivals sent ->
  accept_replay pre = Ok s0 ->
  forallb msg_only evs = true ->
  run fixed evs s0 = (os, s') ->
  (forall d, In d (concat (map obs_msgs os)) -> In d (map fst sent)) /\
  (exists rest, concat (map obs_msgs os) ++ rest = pre ++ accepted evs os).
Proof. exact datagram_whole. Qed.
Print Assumptions C02_datagram.

(* ---- to the connected peer only: a message demultiplexed for (local, r) changes the session of r and of no
        other remote endpoint, and is appended there whole *)
Theorem C02_datagram_peer_only : forall (r : N) (m : bytes) (a a' : api) (r' : N),
  demux r m a = Ok a' -> r' <> r -> lookup r' (sessions a') = lookup r' (sessions a).
Proof. exact demux_peer_only. Qed.
Print Assumptions C02_datagram_peer_only.

Theorem C02_demux_whole : forall (r : N) (m : bytes) (a a' : api) (q : list bytes),
  demux r m a = Ok a' ->
  sess_msgs (lookup r (sessions a)) = Some q ->
  sess_msgs (lookup r (sessions a')) = Some (q ++ [m]).
Proof. exact demux_whole. Qed.
Print Assumptions C02_demux_whole.

(* ---- accept() gives the new socket exactly the messages stored before it existed, in order *)
Theorem C02_accept_replays : forall (a : api) (r : N) (a' : api) (st : list bytes),
  accept a = AOk r a' ->
  lookup r (sessions a) = Some (SPending st) ->
  exists s, lookup r (sessions a') = Some (SActive s) /\ stored s = None /\ queue s = st /\
            (forall r', r' <> r -> lookup r' (sessions a') = lookup r' (sessions a)).
Proof. exact accept_replays. Qed.
Print Assumptions C02_accept_replays.

(* ---- soundness of the validators run on the implementation's traces *)
Theorem C02_validate_stream_sound : forall (fixed : bool) (writes : list bytes) (reads : list (nat * bytes)),
  validate_stream fixed writes reads = true ->
  concat (map snd reads) = concat writes /\
  (fixed = true -> Forall (fun r => length (snd r) <= fst r) reads).
Proof. exact validate_stream_sound. Qed.
Print Assumptions C02_validate_stream_sound.

(* on the multi-thread runtime the FIFO hypothesis is not available: the validator then checks what the model
   guarantees without it (C02_unordered_is_permutation) *)
Theorem C02_validate_stream_unordered_sound :
  forall (fixed : bool) (writes : list bytes) (reads : list (nat * bytes)),
  validate_stream_unordered fixed writes reads = true ->
  (exists ws', Permutation ws' writes /\ concat (map snd reads) = concat ws') /\
  (fixed = true -> Forall (fun r => length (snd r) <= fst r) reads).
Proof. exact validate_stream_unordered_sound. Qed.
Print Assumptions C02_validate_stream_unordered_sound.

Theorem C02_validate_dgram_sound : forall (sent : list (bytes * nat)) (got : list bytes),
  validate_dgram sent got = true ->
  (forall g, In g got -> In g (map fst sent)) /\
  (exists rest, Permutation (copies sent) (got ++ rest)).
Proof. exact validate_dgram_sound. Qed.
Print Assumptions C02_validate_dgram_sound.

(* ---- remark: the channel between session and socket holds 255 messages; the 256th unread message is refused
        (SocketSession::receive -> Err(ClosedSession)) and its bytes are gone; hence [~ In OPushFull os] above *)
Theorem C02_remark_queue_overflow :
  let evs := map (fun _ => EPush [7%N]) (seq 0 256) in
  let '(os, s') := run true evs (mkSock None [] true) in
  In OPushFull os /\ length (pending s') = 255 /\ length (concat (pushed evs)) = 256.
Proof. exact overflow_witness. Qed.
Print Assumptions C02_remark_queue_overflow.

(* ---- remark: accept() panics when more than 255 messages were stored before it (socket.rs:207 unwrap) *)
Theorem C02_remark_accept_overflow_panics :
  accept_replay (repeat [7%N] 256) = Panic P_ACCEPT_REPLAY /\ is_ok (accept_replay (repeat [7%N] 255)) = true.
Proof. exact accept_overflow_witness. Qed.
Print Assumptions C02_remark_accept_overflow_panics.
