(* C15 - address allocation never double-allocates.  Property theorems only; each is closed by
   [exact lemma]; statements are pinned.

   Vocabulary (Proofs/IpGenFacts.v):  avail g a  = some stored range of g contains a;
   inr r a = start r <= a <= end r;  in_net n a = a lies in the subnet n;
   gen_u32 / range_u32 / u32 = every address involved is a u32;  wf_net = what Ipv4Net::new builds.
   The generator model follows the REPAIRED new_sub_no_ends (.cache/c15/fix.patch); the code
   as it is in the tree is new_sub_no_ends_orig and is refuted below. *)
From Elvis Require Import Model.Base Model.IpGen Proofs.IpGenFacts Model.DhcpProto Proofs.DhcpProtoFacts.
Local Open Scope Z_scope.

(* block: removes exactly the blocked addresses, never panics - also not at 0.0.0.0 / 255.255.255.255 *)
Theorem C15_block_spec : forall g rg, gen_u32 g -> range_u32 rg ->
  exists g', block_range g rg = Ok g' /\ gen_u32 g' /\
    forall a, avail g' a <-> avail g a /\ ~ inr rg a.
Proof. exact block_spec. Qed.
Print Assumptions C15_block_spec.

(* return: adds exactly the returned addresses *)
Theorem C15_return_spec : forall g r a, avail (return_range g r) a <-> avail g a \/ inr r a.
Proof. exact return_spec. Qed.
Print Assumptions C15_return_spec.

(* fetch: the block handed out is aligned to the mask, was entirely available, and is withheld afterwards *)
Theorem C15_fetch_spec : forall g m n g', gen_u32 g -> 0 <= m <= 32 ->
  fetch_net g m = Ok (Some n, g') ->
  wf_net n /\ net_bits n = m /\ gen_u32 g' /\
  (forall a, in_net n a -> avail g a) /\
  (forall a, avail g' a <-> avail g a /\ ~ in_net n a).
Proof. exact fetch_spec. Qed.
Print Assumptions C15_fetch_spec.

(* fetch reports None exactly when no SINGLE stored range contains an aligned block of that mask
   (weaker than "no aligned block is available in the union": see C15_fetch_net_incomplete_witness) *)
Theorem C15_fetch_none_spec : forall g m, gen_u32 g -> 0 <= m <= 32 ->
  forall g', fetch_net g m = Ok (None, g') <->
    (g' = g /\ forall av, In av g -> forall id, ~ fits av m id).
Proof. exact fetch_none_spec. Qed.
Print Assumptions C15_fetch_none_spec.

(* single addresses: Some a = an available address, withheld afterwards; None exactly on exhaustion *)
Theorem C15_fetch_ip_spec : forall g, gen_u32 g ->
  exists oa g', fetch_ip g = Ok (oa, g') /\
    match oa with
    | Some a => avail g a /\ gen_u32 g' /\ (forall b, avail g' b <-> avail g b /\ b <> a)
    | None => g' = g /\ forall a, ~ avail g a
    end.
Proof. exact fetch_ip_spec. Qed.
Print Assumptions C15_fetch_ip_spec.

(* observation (not demanded by the property text): an aligned free /30 spread over four
   individually returned addresses is not found *)
Theorem C15_fetch_net_incomplete_witness :
  let g := return_range (return_range (return_range (return_range gen_none (8,8)) (9,9)) (10,10)) (11,11) in
  (forall a, 8 <= a <= 11 -> avail g a) /\ fetch_net g 30 = Ok (None, g).
Proof. exact fetch_net_incomplete_witness. Qed.
Print Assumptions C15_fetch_net_incomplete_witness.

(* every public operation on every u32 generator: no panic (in particular none of the
   add(..).expect sites, none at the ends of the address space), exact effect on availability,
   and whatever is handed out was available *)
Theorem C15_no_panic : forall g o, gen_u32 g -> op_wf o ->
  exists g' r, apply_op g o = Ok (g', r) /\ gen_u32 g' /\
    (forall a, in_onet (fetched_of r) a -> avail g a) /\
    (forall a, avail g' a <->
       (avail g a /\ ~ in_nets (blocks_of o) a /\ ~ in_onet (fetched_of r) a) \/ in_onet (returns_of o) a) /\
    (returns_of o <> None -> fetched_of r = None /\ blocks_of o = []).
Proof. exact apply_op_spec. Qed.
Print Assumptions C15_no_panic.

Theorem C15_build_ok : forall k, ctor_wf k -> exists g0, build k = Ok g0 /\ gen_u32 g0.
Proof. exact build_ok. Qed.
Print Assumptions C15_build_ok.

(* HISTORY theorem.  For every pool and every sequence of operations (block / fetch_ip /
   fetch_net / return_subnet / return_ip / is_available / block_reserved_ips), with
   held := fetched and not returned since, blocked := blocked and not returned since,
   pool := initially available or returned:  the run never panics; available addresses are
   neither held nor blocked; held addresses are in the pool; nothing in the pool is lost;
   and whatever the NEXT operation hands out lies in the pool and is neither held nor blocked
   (so no address and no overlapping subnet is handed out while held), returned addresses are
   available again, and fetch_ip reports None only when nothing is available. *)
Theorem C15_no_double : forall g0 ops, gen_u32 g0 -> Forall op_wf ops ->
  exists g s, IpGenFacts.run g0 (ghost0 g0) ops = Ok (g, s) /\
    (gen_u32 g /\
     (forall a, avail g a -> ~ held s a /\ ~ blocked s a) /\
     (forall a, held s a -> pool s a) /\
     (forall a, avail g a -> pool s a) /\
     (forall a, pool s a -> avail g a \/ held s a \/ blocked s a)) /\
    forall o, op_wf o ->
      exists g' r, apply_op g o = Ok (g', r) /\
        (forall a, in_onet (fetched_of r) a -> pool s a /\ ~ held s a /\ ~ blocked s a) /\
        (forall a, in_onet (returns_of o) a -> avail g' a) /\
        (r = RIp None -> forall a, ~ avail g a).
Proof. exact no_double. Qed.
Print Assumptions C15_no_double.

(* the set stays a strictly sorted list = a BTreeSet value *)
Theorem C15_set_sorted : forall g o g' r, sorted g -> apply_op g o = Ok (g', r) -> sorted g'.
Proof. exact apply_op_sorted. Qed.
Print Assumptions C15_set_sorted.

(* a generator built for a subnet minus its ends offers exactly the host addresses (repaired code) *)
Theorem C15_no_ends : forall n, wf_net n ->
  exists g, new_sub_no_ends n = Ok g /\ gen_u32 g /\
    forall a, avail g a <-> net_id n < a < net_last n.
Proof. exact no_ends_spec. Qed.
Print Assumptions C15_no_ends.

(* the code as it is in the tree (end = id - 1): offers nothing at all; 10.0.0.0/29 is the witness *)
Theorem C15_no_ends_orig_refuted :
  (forall n a, ~ avail (new_sub_no_ends_orig n) a) /\
  exists n a, wf_net n /\ net_id n < a < net_last n /\ ~ avail (new_sub_no_ends_orig n) a.
Proof. exact (conj no_ends_orig_offers_nothing no_ends_orig_refuted). Qed.
Print Assumptions C15_no_ends_orig_refuted.

(* DHCP.  In every state reachable from n clients starting simultaneously, under every
   ordering, loss and duplication of messages (no release), or under every ordering, loss
   and release (no duplication): addresses acknowledged to distinct clients are distinct, lie
   in the pool, and are still withheld by the server's generator. *)
Theorem C15_dhcp_distinct : forall n g0 tr st, gen_u32 g0 -> no_release tr \/ no_dup tr ->
  DhcpProto.run (init n g0) tr = Ok st ->
  (forall c1 c2 a, acked st c1 a -> acked st c2 a -> c1 = c2) /\
  (forall c a, acked st c a -> avail g0 a /\ ~ avail (srv st) a).
Proof. exact dhcp_distinct. Qed.
Print Assumptions C15_dhcp_distinct.

(* duplication AND release together double-lease (the server takes a Release at face value and a
   stale duplicate Ack re-installs the address).  The real client never sends Release, so this
   needs an application that does. *)
Theorem C15_dhcp_dup_release_refuted :
  exists st, DhcpProto.run (init 2 (gen_new (10, 12))) double_lease_trace = Ok st /\
             acked st 0 10 /\ acked st 1 10.
Proof. exact dhcp_dup_release_refuted. Qed.
Print Assumptions C15_dhcp_dup_release_refuted.

(* pool exhaustion is a crash of the server (dhcp_server.rs:60), not a double lease ... *)
Theorem C15_dhcp_exhaustion_panics :
  DhcpProto.run (init 2 (gen_new (10, 10))) [Deliver 0; Deliver 0] = Panic 60.
Proof. exact dhcp_exhaustion_panics. Qed.
Print Assumptions C15_dhcp_exhaustion_panics.

(* ... and cannot happen while clients + duplications fit into the pool *)
Theorem C15_dhcp_no_panic : forall n g0 tr L, gen_u32 g0 -> no_release tr ->
  NoDup L -> (forall a, In a L -> avail g0 a) -> (n + count_dups tr <= length L)%nat ->
  exists st, DhcpProto.run (init n g0) tr = Ok st.
Proof. exact dhcp_no_panic. Qed.
Print Assumptions C15_dhcp_no_panic.

Theorem C15_dhcp_no_panic_range : forall n s e tr, u32 s -> u32 e -> s <= e -> no_release tr ->
  Z.of_nat (n + count_dups tr) <= e - s + 1 ->
  exists st, DhcpProto.run (init n (gen_new (s, e))) tr = Ok st.
Proof. exact dhcp_no_panic_range. Qed.
Print Assumptions C15_dhcp_no_panic_range.

(* a released address is available to the server again and the next Discover is offered an available address *)
Theorem C15_dhcp_release_returns : forall g m, gen_u32 g -> m_type m = Release -> u32 (m_ip m) ->
  exists g', server_demux g m = Ok (g', []) /\ avail g' (m_ip m) /\
    forall d, m_type d = Discover ->
      exists a g'', server_demux g' d = Ok (g'', [offer (m_cid d) a]) /\ avail g' a.
Proof. exact dhcp_release_returns. Qed.
Print Assumptions C15_dhcp_release_returns.

(* each client learns an address: at quiescence of any loss-free run every client holds one *)
Theorem C15_dhcp_all_learn : forall n g0 tr st, forallb is_lossless tr = true ->
  DhcpProto.run (init n g0) tr = Ok st -> net st = [] ->
  forall c, (c < n)%nat -> exists a, acked st c a.
Proof. exact dhcp_all_learn. Qed.
Print Assumptions C15_dhcp_all_learn.
