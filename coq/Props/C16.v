(* C16 - routers forward along the route and TTL bounds every packet's life.
   Property theorems only.  Each is closed by [exact lemma]; statements are pinned.
   All theorems are about the model (Model/Router.v: ArpRouter::demux transcribed, ARP as the
   topology function); the link to the running code is the trace validator [validate], whose
   soundness is C16_validate_sound and which the check runs on every recorded trace. *)
From Coq Require Import NArith.
From Elvis Require Import Model.Base Model.Subnet Model.IpTable Model.Router
     Proofs.SubnetFacts Proofs.IpTableFacts Proofs.RouterFacts.
Local Open Scope N_scope.

(* one hop: the frame a router emits is the received datagram with the TTL one lower (and still
   positive), everything else unchanged, on the slot and towards the next hop (gateway, or the
   destination itself) that the table lookup of the destination yields *)
Theorem C16_ttl_decrements_hop : forall r resolves p slot nh q,
  In (slot, nh, q) (hop_out r resolves p) ->
  p_ttl q + 1 = p_ttl p /\ 1 <= p_ttl q /\ same_but_ttl p q /\
  exists gw, get_recipient (r_table r) (p_dst p) = Some (gw, slot) /\
             nh = next_hop_of gw (p_dst p).
Proof. exact hop_out_spec. Qed.
Print Assumptions C16_ttl_decrements_hop.

(* along a trajectory through ANY topology and tables: the k-th forwarded frame carries the
   initial TTL minus (k+1) *)
Theorem C16_ttl_decrements : forall routers accepts topo start p l e,
  trajectory routers accepts topo start p = (l, e) ->
  forall k h, nth_error l k = Some h ->
    p_ttl (ho_pkt h) + N.of_nat (S k) = p_ttl p /\ 1 <= p_ttl (ho_pkt h).
Proof. exact ttl_decrements. Qed.
Print Assumptions C16_ttl_decrements.

(* forwarding never multiplies: a hop emits at most one frame, and no two frames of a
   trajectory carry the same TTL *)
Theorem C16_one_in_one_out :
  (forall r resolves p, (length (hop_out r resolves p) <= 1)%nat) /\
  (forall routers accepts topo start p l e,
     trajectory routers accepts topo start p = (l, e) ->
     NoDup (map (fun h => p_ttl (ho_pkt h)) l)).
Proof. exact (conj hop_out_le1 no_dup_ttl). Qed.
Print Assumptions C16_one_in_one_out.

(* TTL bounds the life, for EVERY topology and table assignment (loops, black holes): at most
   TTL forwarded frames; counting the sender's own frame, at most TTL frames in total; and the
   trajectory function never runs out of its fuel (= TTL + 1) *)
Theorem C16_bounded : forall routers accepts topo start p,
  (forall l e, trajectory routers accepts topo start p = (l, e) ->
     (length l <= N.to_nat (p_ttl p))%nat /\
     (1 <= p_ttl p -> (S (length l) <= N.to_nat (p_ttl p))%nat)) /\
  snd (trajectory routers accepts topo start p) <> EFuel.
Proof.
  exact (fun routers accepts topo start p =>
           conj (bounded routers accepts topo start p)
                (never_out_of_fuel routers accepts topo start p)).
Qed.
Print Assumptions C16_bounded.

(* the trajectory is the path the tables define: consecutive frames are chained through the
   topology, every hop uses the table entry of its router, and the ending is justified
   (delivered at the owner of the destination, TTL ran out, no route, nobody answers ARP) *)
Theorem C16_follows_route : forall routers accepts topo start p l e,
  wf_pkt p -> trajectory routers accepts topo start p = (l, e) ->
  chain topo O start l /\ Forall (hop_ok routers (p_dst p)) l /\
  ending_ok routers accepts topo O start p l e.
Proof. exact follows_route. Qed.
Print Assumptions C16_follows_route.

(* ... and with tables built through IpTable's interface (C09) that entry is the
   longest-prefix match of the destination *)
Theorem C16_follows_lpm : forall routers accepts topo start p l e,
  (forall r, tbl_inv (r_table (routers r))) ->
  trajectory routers accepts topo start p = (l, e) ->
  forall h, In h l ->
    exists n gw, In (n, (gw, ho_slot h)) (tbl_iter (r_table (routers (ho_router h)))) /\
                 contains n (p_dst p) = true /\
                 (forall n' v', In (n', v') (tbl_iter (r_table (routers (ho_router h)))) ->
                                contains n' (p_dst p) = true -> masklen n' <= masklen n) /\
                 ho_nh h = next_hop_of gw (p_dst p).
Proof. exact follows_lpm. Qed.
Print Assumptions C16_follows_lpm.

Theorem C16_payload_unchanged : forall routers accepts topo start p l e,
  trajectory routers accepts topo start p = (l, e) ->
  forall h, In h l -> same_but_ttl p (ho_pkt h).
Proof. exact payload_unchanged. Qed.
Print Assumptions C16_payload_unchanged.

(* a trajectory has one ending; if it is a delivery, it is at the last node reached, which is
   a host with a listen binding that takes the destination address (its own address, or
   0.0.0.0: C16_accepts_own_address) *)
Theorem C16_only_destination : forall routers accepts topo start p l e,
  trajectory routers accepts topo start p = (l, e) ->
  forall h, e = EDelivered h -> accepts h (p_dst p) = true /\ last_node start l = NHost h.
Proof. exact only_destination. Qed.
Print Assumptions C16_only_destination.

(* correct (ranked, hence loop-free) routes deliver, within rank+1 router hops, if the TTL
   allows it *)
Theorem C16_delivered : forall routers accepts topo r p hd P rank,
  ranked routers accepts topo p hd P rank -> P r ->
  (rank r + 2 <= N.to_nat (p_ttl p))%nat ->
  exists l, trajectory routers accepts topo (NRouter r) p = (l, EDelivered hd) /\
            (length l <= S (rank r))%nat.
Proof. exact delivered. Qed.
Print Assumptions C16_delivered.

Example C16_example_ranked :
  ranked (cfg_router (ex_line 65535)) (cfg_accepts (ex_line 65535)) (fun _ => cfg_topo (ex_line 65535))
         (ex_pkt 30 18) 1 (fun r => r = 0 \/ r = 1) (fun r => if r =? 0 then 1%nat else 0%nat).
Proof. exact ex_ranked. Qed.
Print Assumptions C16_example_ranked.

Example C16_example_line_delivers :
  cfg_trajectory (ex_line 65535) (NRouter 0) (ex_pkt 30 18) =
    ([ mkHop 0 1 167772418 (NRouter 1) (ex_pkt 29 18);
       mkHop 1 1 167772682 (NHost 1) (ex_pkt 28 18) ], EDelivered 1).
Proof. exact ex_line_delivers. Qed.
Print Assumptions C16_example_line_delivers.

Example C16_example_loop_falls_silent :
  let (l, e) := cfg_trajectory ex_loop (NRouter 0) (ex_pkt 30 18) in
  length l = 29%nat /\ e = ETtl 1.
Proof. exact ex_loop_falls_silent. Qed.
Print Assumptions C16_example_loop_falls_silent.

(* soundness of the executable validator that the check runs on the implementation's traces:
   an accepted trace contains nothing but the scenario's datagrams, and for each of them the
   observed frames start at the sender, decrement the TTL by one per frame, number at most
   the initial TTL, differ in nothing but the TTL, never repeat, follow the configured routes
   hop by hop (to the observed receivers; to the owners of the next-hop addresses when
   [ideal_hops] holds), and the datagram reaches only an application whose binding takes the
   destination address *)
Theorem C16_validate_sound : forall c ds fr xs,
  validate c ds fr xs = true -> trace_property c ds fr xs.
Proof. exact validate_sound. Qed.
Print Assumptions C16_validate_sound.

Example C16_example_validate :
  validate (ex_line 65535) [ex_dgram] ex_trace
           [(0, mkRx 1 167772170 167772682 (repeat 0 10))] = true /\
  validate (ex_line 65535) [ex_dgram]
           (ex_trace ++ [(0, mkFrame 2 (NRouter 1) (Some (NHost 1)) (ex_pkt 28 18))])
           [(0, mkRx 1 167772170 167772682 (repeat 0 10))] = false.
Proof. exact ex_validate_accepts. Qed.
Print Assumptions C16_example_validate.

(* "to no other host's applications" is REFUTED for the code as it is when ARP hands a frame to a
   station that does not own the next hop (the ARP table is keyed by IP address only and shared
   by all interfaces: a MAC learnt on one network is used on another) and that station's
   application listens on 0.0.0.0.  Witness: R0's route for a local network names the wrong
   slot.  C16_only_destination above is the positive statement (the receiver has a binding
   that takes the address); with C16_accepts_own_address it names the destination host when no
   application listens on 0.0.0.0; C16_validate_sound's [ideal_hops] clause is the other
   excluding hypothesis (ARP behaved). *)
Theorem C16_only_destination_refuted :
  snd (cfg_trajectory ex_bad (NRouter 0) (ex_bad_pkt 30)) = ENoArp 0 /\
  exists topo l h,
    trajectory (cfg_router ex_bad) (cfg_accepts ex_bad) topo (NRouter 0) (ex_bad_pkt 30)
      = (l, EDelivered h) /\
    cfg_host_ip ex_bad h <> p_dst (ex_bad_pkt 30).
Proof. exact refuted_only_destination. Qed.
Print Assumptions C16_only_destination_refuted.

Example C16_example_validate_polluted :
  validate ex_bad [ex_bad_dgram] ex_bad_trace
           [(0, mkRx 1 167772170 167772428 (repeat 0 10))] = true /\
  all_ideal ex_bad 0 [ex_bad_dgram] ex_bad_trace = false /\
  all_ideal (ex_line 65535) 0 [ex_dgram] ex_trace = true.
Proof. exact ex_bad_validate. Qed.
Print Assumptions C16_example_validate_polluted.

(* ---- the model shows where the code leaves the property's ground *)
(* TTL 0 at a router: u8 underflow in the dev profile.  No conforming host and no router emits
   TTL 0 (C16_ttl_decrements: forwarded TTLs are >= 1; the stack's default is 30), so this
   needs a forged frame. *)
Theorem C16_remark_ttl0_panics : forall r p routers accepts topo,
  p_ttl p = 0 ->
  route_step (routers r) p = Panic site_ttl_sub /\
  trajectory routers accepts topo (NRouter r) p = ([], EPanic r site_ttl_sub).
Proof. exact remark_ttl0_panics. Qed.
Print Assumptions C16_remark_ttl0_panics.

Theorem C16_remark_ttl1_dropped : forall r p resolves, p_ttl p = 1 ->
  route_step r p = Ok ADrop /\ hop_out r resolves p = [].
Proof. exact remark_ttl1_dropped. Qed.
Print Assumptions C16_remark_ttl1_dropped.

(* a datagram that does not fit the next network's MTU kills the process *)
Theorem C16_remark_mtu_panics :
  cfg_trajectory (ex_line 100) (NRouter 0) (ex_pkt 30 200) = ([], EPanic 0 site_send_expect).
Proof. exact remark_mtu_panics. Qed.
Print Assumptions C16_remark_mtu_panics.

(* a route naming a slot beyond local_ips / beyond the Pci sessions kills the process *)
Theorem C16_remark_slot_panics :
  let r := mkRouter [ (mkNet 0 0, (None, 2)) ] [1; 2] [65535; 65535] in
  let r' := mkRouter [ (mkNet 0 0, (None, 2)) ] [1; 2; 3] [65535; 65535] in
  route_step r (ex_pkt 30 18) = Panic site_local_index /\
  route_step r' (ex_pkt 30 18) = Panic site_pci_open.
Proof. exact remark_slot_panics. Qed.
Print Assumptions C16_remark_slot_panics.

(* [accepts] of a concrete configuration: unless the application listens on 0.0.0.0, a host
   accepts exactly its own address (so C16_only_destination names the destination host) *)
Theorem C16_accepts_own_address : forall c h dst, hc_wild (cfg_hc c h) = false ->
  cfg_accepts c h dst = true -> cfg_host_ip c h = dst.
Proof. exact cfg_accepts_own. Qed.
Print Assumptions C16_accepts_own_address.
