(* C06 - ARP resolves an IP address to its owner's (or the gateway's) MAC.
   Property theorems only; each is closed by [exact lemma]; statements are pinned.

   Vocabulary (Model/ArpProto.v, Proofs/ArpProtoFacts.v):
     config          machines (MAC, addresses it may claim, preconfigured subnets) on one network, MTU
     wf_cfg cfg      claimed addresses are pairwise distinct over all machines, MACs are distinct
                     and below the broadcast MAC, preconfigured subnets belong to claimed addresses
     step cfg s (t,l) one move of the timed transition system at instant t: LListen / LSetSubnet /
                     LStart m rid pair slot (Arp::resolve up to its first await) / LPoll rid (one poll
                     of timeout(RESEND_DELAY, get_mac)) / LDeliver, LDrop, LDup of one frame copy
     run, reachable  sequences of moves from [init cfg]
     target sub p    the address resolve() looks up (arp.rs:185-200)
     r_dest, r_sub, r_pair, r_born, r_phase   a resolver: looked-up address, the subnet entry read at
                     its start, the pair it was called with, start instant, PWait tries deadline |
                     PDone status instant cause (CCache | CBudget | CSend)
     is_wait s rid m D / is_done s rid m D st   resolver rid runs on machine m, looks up D, and is
                     waiting / has returned st
     owner_mac cfg s ip mac   mac is the MAC of a machine that listens on ip, may claim ip, and is the
                     only machine that may claim ip
     BUDGET          RESEND_TRIES * RESEND_DELAY = 2 s
   All theorems quantify over every well-formed configuration (any number of machines, any claims,
   masks, gateways), every resolver/target pair, every interleaving of resolver polls with frame
   deliveries, drops and duplications (any loss pattern, per receiver), and every timing that the
   virtual clock allows. *)
From Coq Require Import NArith ZArith List.
From Elvis Require Import Model.Base Model.Subnet Model.ArpProto Proofs.ArpProtoFacts.
Import ListNotations.

(* ------------------------------------------------------------------ which address is looked up *)

(* the gateway exactly when a subnet is configured for the local address and the remote address
   is outside it (masked addresses differ); the remote address itself otherwise *)
Theorem C06_target_rule : forall (sub : option subnet_info) (p : pair),
  (forall sn, sub = Some sn ->
     N.land (p_local p) (sn_mask sn) <> N.land (p_remote p) (sn_mask sn) -> target sub p = sn_gw sn) /\
  (forall sn, sub = Some sn ->
     N.land (p_local p) (sn_mask sn) = N.land (p_remote p) (sn_mask sn) -> target sub p = p_remote p) /\
  (sub = None -> target sub p = p_remote p).
Proof. exact target_rule. Qed.
Print Assumptions C06_target_rule.

(* same rule through Ipv4Net::contains of Model/Subnet.v (property C09's network arithmetic) *)
Theorem C06_target_rule_contains : forall (sn : subnet_info) (p : pair),
  target (Some sn) p =
  if contains (net_new (p_local p) (sn_mask sn)) (p_remote p) then p_remote p else sn_gw sn.
Proof. exact target_contains. Qed.
Print Assumptions C06_target_rule_contains.

(* a resolver looks up target(subnet entry of its local address after listen(local), its pair) *)
Theorem C06_start_records : forall cfg s t m rid p slot s',
  step cfg s (t, LStart m rid p slot) = Ok s' ->
  exists r, st_res s' rid = Some r /\ r_mach r = m /\ r_pair r = p /\ r_born r = t /\
    r_sub r = match ms_local (listen (st_machs s m) (p_local p)) (p_local p) with
              | Some inner => inner | None => None end /\
    r_dest r = target (r_sub r) p.
Proof. exact start_records. Qed.
Print Assumptions C06_start_records.

(* ------------------------------------------------------------------ never another machine's MAC *)

(* invariant: every resolved entry of every ARP table is the MAC of the machine that claimed the address *)
Theorem C06_table_truthful : forall cfg s m ip mac,
  wf_cfg cfg -> reachable cfg s ->
  ms_table (st_machs s m) ip = Some (SOk mac) -> owner_mac cfg s ip mac.
Proof. exact table_truthful. Qed.
Print Assumptions C06_table_truthful.

(* every MAC returned by resolve is the MAC of the owner of the looked-up address (the remote
   address, or the gateway by the target rule) - never any other machine's *)
Theorem C06_never_wrong : forall cfg s rid r mac t c,
  wf_cfg cfg -> reachable cfg s ->
  st_res s rid = Some r -> r_phase r = PDone (SOk mac) t c ->
  r_dest r = target (r_sub r) (r_pair r) /\ owner_mac cfg s (r_dest r) mac.
Proof. exact never_wrong. Qed.
Print Assumptions C06_never_wrong.

(* ------------------------------------------------------------------ one exchange suffices *)

(* 1. a request delivered to a machine that answers for its target puts the reply (that machine's
      MAC, the target address) in flight to the requester;
   2. any ARP packet delivered to a machine leaves sender_ip -> sender_mac in its table;
   3. once the table of machine m resolves D, every resolver of D on m that was still waiting at
      that moment, or starts afterwards, returns that MAC - whatever happens in between;
   4. conversely a resolver can only give up while no packet of D's owner has ever reached it *)
Theorem C06_succeeds_if_one_exchange :
  (forall cfg s t req o m s',
     wf_cfg cfg -> (ARP_SIZE <= cfg_mtu cfg)%N ->
     step cfg s (t, LDeliver req o) = Ok s' ->
     pk_oper req = Request -> listens s o (pk_tip req) ->
     (m < n_machs cfg)%nat -> pk_smac req = mac_of cfg m ->
     In (reply_of cfg o req, m) (st_net s') /\
     pk_oper (reply_of cfg o req) = Reply /\ pk_sip (reply_of cfg o req) = pk_tip req /\
     pk_smac (reply_of cfg o req) = mac_of cfg o) /\
  (forall cfg s t p m s',
     step cfg s (t, LDeliver p m) = Ok s' ->
     ms_table (st_machs s' m) (pk_sip p) = Some (SOk (pk_smac p))) /\
  (forall cfg s tr s' rid m D mac r st t c,
     wf_cfg cfg -> reachable cfg s -> run cfg s tr = Ok s' ->
     ms_table (st_machs s m) D = Some (SOk mac) ->
     (st_res s rid = None \/ exists r0 k dl, st_res s rid = Some r0 /\ r_phase r0 = PWait k dl) ->
     st_res s' rid = Some r -> r_mach r = m -> r_dest r = D -> r_phase r = PDone st t c ->
     st = SOk mac) /\
  (forall cfg s x s' rid r k dl r' t c,
     step cfg s x = Ok s' ->
     st_res s rid = Some r -> r_phase r = PWait k dl ->
     st_res s' rid = Some r' -> r_phase r' = PDone SFailed t c ->
     forall mac, ms_table (st_machs s (r_mach r)) (r_dest r) <> Some (SOk mac)).
Proof. exact (conj exchange_request (conj exchange_reply (conj succeeds failure_means_unheard))). Qed.
Print Assumptions C06_succeeds_if_one_exchange.

(* ------------------------------------------------------------------ bounded failure, no hang *)

(* 1. an address nobody may claim is never resolved to any MAC;
   2. timing of every resolver: while waiting it has sent 1..RESEND_TRIES requests, its deadline is
      start + tries*RESEND_DELAY and has not passed; once finished, it finished within
      [start, start + BUDGET], on the exhausted-budget path with Err at exactly start + BUDGET;
   3. (restated for failures) *)
Theorem C06_bounded_failure :
  (forall cfg s rid r mac t c,
     wf_cfg cfg -> reachable cfg s ->
     (forall o, (o < n_machs cfg)%nat -> ~ In (r_dest r) (claims_of cfg o)) ->
     st_res s rid = Some r -> r_phase r <> PDone (SOk mac) t c) /\
  (forall cfg s rid r,
     wf_cfg cfg -> reachable cfg s -> st_res s rid = Some r ->
     (r_born r <= st_now s)%Z /\
     match r_phase r with
     | PWait k dl =>
         (1 <= k <= RESEND_TRIES)%N /\ dl = (r_born r + Z.of_N k * RESEND_DELAY)%Z /\ (st_now s <= dl)%Z
     | PDone st t c =>
         (r_born r <= t <= st_now s)%Z /\ (t <= r_born r + BUDGET)%Z /\
         (c = CBudget -> st = SFailed /\ t = (r_born r + BUDGET)%Z) /\
         (c = CSend -> st = SFailed)
     end) /\
  (forall cfg s rid r t c,
     wf_cfg cfg -> reachable cfg s -> st_res s rid = Some r -> r_phase r = PDone SFailed t c ->
     (r_born r <= t <= r_born r + BUDGET)%Z /\ (c = CBudget -> t = (r_born r + BUDGET)%Z)).
Proof. exact (conj unclaimed_never_ok (conj resolver_timing failure_cause)). Qed.
Print Assumptions C06_bounded_failure.

(* a cached failure always stems from a resolver of that address on that machine whose own budget
   was exhausted (so an Err obtained from the cache is also a bounded-retry failure) *)
Theorem C06_cached_failure_origin : forall cfg s m ip,
  wf_cfg cfg -> reachable cfg s -> ms_table (st_machs s m) ip = Some SFailed ->
  exists rid r t, st_res s rid = Some r /\ r_mach r = m /\ r_dest r = ip /\
                  r_phase r = PDone SFailed t CBudget.
Proof. exact cached_failure_origin. Qed.
Print Assumptions C06_cached_failure_origin.

(* no hang: whenever a resolver is waiting, the poll of some waiting resolver is a move of the
   model at an instant no later than the waiting resolver's deadline and within the polled
   resolver's budget; together with the deadline bound of C06_bounded_failure nobody waits
   beyond start + BUDGET *)
Theorem C06_never_hangs : forall cfg s rid r k dl,
  wf_cfg cfg -> reachable cfg s -> st_res s rid = Some r -> r_phase r = PWait k dl ->
  exists rid0 r0 t0 s',
    step cfg s (t0, LPoll rid0) = Ok s' /\ st_res s rid0 = Some r0 /\
    (st_now s <= t0 <= r_born r0 + BUDGET)%Z /\ (t0 <= dl)%Z.
Proof. exact never_hangs. Qed.
Print Assumptions C06_never_hangs.

(* ------------------------------------------------------------------ same answer *)

(* all successful resolutions of one address agree - any machines, any time *)
Theorem C06_same_answer_ok : forall cfg s rid1 rid2 r1 r2 mac1 mac2 t1 t2 c1 c2,
  wf_cfg cfg -> reachable cfg s ->
  st_res s rid1 = Some r1 -> st_res s rid2 = Some r2 -> r_dest r1 = r_dest r2 ->
  r_phase r1 = PDone (SOk mac1) t1 c1 -> r_phase r2 = PDone (SOk mac2) t2 c2 -> mac1 = mac2.
Proof. exact same_answer_ok. Qed.
Print Assumptions C06_same_answer_ok.

(* the unrestricted statement "concurrent resolvers of the same address on one machine get the
   same answer" is FALSE for the code as it is: a run (recorded from the implementation) in which
   resolver 1 exhausts its budget and returns Err, the reply to its last request arrives at that
   very instant after the failure was cached, and resolver 2 - same machine, same address, started
   100 ms later, still waiting - returns Ok.  Their lifetimes overlap. *)
Theorem C06_same_answer_refuted :
  exists cfg tr s r1 r2 t1 t2 c1 c2 mac,
    wf_cfg cfg /\ run cfg (init cfg) tr = Ok s /\
    st_res s 1%N = Some r1 /\ st_res s 2%N = Some r2 /\
    r_mach r1 = r_mach r2 /\ r_dest r1 = r_dest r2 /\ c1 <> CSend /\ c2 <> CSend /\
    r_phase r1 = PDone SFailed t1 c1 /\ r_phase r2 = PDone (SOk mac) t2 c2 /\
    (r_born r1 < t2)%Z /\ (r_born r2 < t1)%Z.
Proof. exact same_answer_refuted. Qed.
Print Assumptions C06_same_answer_refuted.

(* positive theorem with the exact excluding hypothesis: if no ARP packet of an address is ever
   delivered to a machine that holds a cached failure for that address (in particular: no reply
   is still in flight when a budget runs out), ALL resolvers of that address on that machine -
   concurrent or not - get the same answer (send errors aside) *)
Theorem C06_same_answer : forall cfg tr s rid1 rid2 r1 r2 st1 st2 t1 t2 c1 c2,
  wf_cfg cfg -> run cfg (init cfg) tr = Ok s -> no_late_answer cfg (init cfg) tr ->
  st_res s rid1 = Some r1 -> st_res s rid2 = Some r2 ->
  r_mach r1 = r_mach r2 -> r_dest r1 = r_dest r2 ->
  r_phase r1 = PDone st1 t1 c1 -> r_phase r2 = PDone st2 t2 c2 -> c1 <> CSend -> c2 <> CSend ->
  st1 = st2.
Proof. exact same_answer. Qed.
Print Assumptions C06_same_answer.

(* state form: agreement holds for an address on a machine as long as no cached failure of that
   address was overwritten there *)
Theorem C06_same_answer_unflipped : forall cfg s rid1 rid2 r1 r2 st1 st2 t1 t2 c1 c2,
  wf_cfg cfg -> reachable cfg s ->
  st_res s rid1 = Some r1 -> st_res s rid2 = Some r2 ->
  r_mach r1 = r_mach r2 -> r_dest r1 = r_dest r2 ->
  r_phase r1 = PDone st1 t1 c1 -> r_phase r2 = PDone st2 t2 c2 -> c1 <> CSend -> c2 <> CSend ->
  ms_flipped (st_machs s (r_mach r1)) (r_dest r1) = false ->
  st1 = st2.
Proof. exact same_answer_unflipped. Qed.
Print Assumptions C06_same_answer_unflipped.

(* sharper form for concurrency (the hypothesis the design anticipated): two resolvers of one
   address on one machine that are waiting at the same moment finish with the same answer,
   provided no packet of that address overwrites a cached failure WHILE a resolver of it is still
   waiting on that machine (late_answer_to_waiter: exactly the step of C06_same_answer_refuted).
   Overwriting a cached failure after everybody has returned is allowed. *)
Theorem C06_same_answer_concurrent : forall cfg sa tr s rid1 rid2 m D st1 st2,
  wf_cfg cfg -> (ARP_SIZE <= cfg_mtu cfg)%N -> reachable cfg sa -> rid1 <> rid2 ->
  is_wait sa rid1 m D -> is_wait sa rid2 m D ->
  run cfg sa tr = Ok s -> no_late_answer_to_waiter cfg sa tr ->
  is_done s rid1 m D st1 -> is_done s rid2 m D st2 -> st1 = st2.
Proof. exact same_answer_concurrent. Qed.
Print Assumptions C06_same_answer_concurrent.

Example C06_example_concurrent_hypotheses :
  exists sa s,
    run wcfg_subnet (init wcfg_subnet) (firstn 4 wtrace_agree) = Ok sa /\
    is_wait sa 1%N 0%nat 167772162%N /\ is_wait sa 2%N 0%nat 167772162%N /\
    run wcfg_subnet sa (skipn 4 wtrace_agree) = Ok s /\
    no_late_answer_to_waiter wcfg_subnet sa (skipn 4 wtrace_agree) /\
    is_done s 1%N 0%nat 167772162%N (SOk 1) /\ is_done s 2%N 0%nat 167772162%N (SOk 1).
Proof. exact concurrent_hypotheses_satisfiable. Qed.
Print Assumptions C06_example_concurrent_hypotheses.

(* ------------------------------------------------------------------ trace validation *)

(* an accepted trace is a run of the model on a well-formed configuration whose final state gives
   every observed resolver exactly the observed result and instant, accounts for every resolver
   of the run and leaves no model frame undelivered *)
Theorem C06_validate_sound : forall cfg tr os,
  validate cfg tr os = Accept ->
  wf_cfg cfg /\
  exists s, run cfg (init cfg) tr = Ok s /\ st_net s = [] /\
    (forall o, In o os -> exists r c, st_res s (o_rid o) = Some r /\
                                      r_phase r = PDone (o_status o) (o_at o) c) /\
    (forall rid, In rid (st_rids s) -> exists o, In o os /\ o_rid o = rid).
Proof. exact validate_sound. Qed.
Print Assumptions C06_validate_sound.

(* hence the property holds of the observed results of an accepted trace *)
Theorem C06_validate_property : forall cfg tr os,
  validate cfg tr os = Accept ->
  exists s, run cfg (init cfg) tr = Ok s /\
    forall o, In o os ->
      exists r c, st_res s (o_rid o) = Some r /\ r_phase r = PDone (o_status o) (o_at o) c /\
        r_dest r = target (r_sub r) (r_pair r) /\
        (forall mac, o_status o = SOk mac -> owner_mac cfg s (r_dest r) mac) /\
        (r_born r <= o_at o <= r_born r + BUDGET)%Z /\
        (c = CBudget -> o_status o = SFailed /\ o_at o = (r_born r + BUDGET)%Z).
Proof. exact validate_property. Qed.
Print Assumptions C06_validate_property.

(* results-only validation (multi-thread runs): every accepted MAC is the MAC of the one machine
   that may claim the address selected by the target rule *)
Theorem C06_validate_results_sound : forall cfg os,
  validate_results cfg os = true ->
  wf_cfg cfg /\
  forall o mac, In o os -> ro_status o = SOk mac ->
    exists i, (i < n_machs cfg)%nat /\ mac = mac_of cfg i /\
              In (target (ro_sub o) (ro_pair o)) (claims_of cfg i) /\
              forall j, (j < n_machs cfg)%nat -> In (target (ro_sub o) (ro_pair o)) (claims_of cfg j) -> j = i.
Proof. exact validate_results_sound. Qed.
Print Assumptions C06_validate_results_sound.

(* ------------------------------------------------------------------ the hypotheses are satisfiable *)

(* a recorded run without late answers: two concurrent resolvers on a machine with a /24 subnet,
   one for an on-subnet address, one for 192.168.1.1 which the rule sends to the gateway; both
   return the gateway/owner MAC *)
Example C06_example_hypotheses :
  wf_cfg wcfg_subnet /\ no_late_answer wcfg_subnet (init wcfg_subnet) wtrace_agree /\
  exists s r1 r2,
    run wcfg_subnet (init wcfg_subnet) wtrace_agree = Ok s /\
    st_res s 1%N = Some r1 /\ st_res s 2%N = Some r2 /\
    r_dest r1 = 167772162%N /\ r_dest r2 = 167772162%N /\ p_remote (r_pair r2) = 3232235777%N /\
    r_phase r1 = PDone (SOk 1) 0 CCache /\ r_phase r2 = PDone (SOk 1) 0 CCache.
Proof. exact hypotheses_satisfiable. Qed.
Print Assumptions C06_example_hypotheses.

(* a recorded run for an address nobody claims: Err after exactly 2 s *)
Example C06_example_unclaimed :
  exists s r,
    run wcfg (init wcfg) wtrace_unclaimed = Ok s /\ st_res s 1%N = Some r /\
    r_phase r = PDone SFailed 2000000000 CBudget /\ r_born r = 0%Z.
Proof. exact unclaimed_example. Qed.
Print Assumptions C06_example_unclaimed.
