(* C10 - IPv4 fragmentation produces a faithful partition of the datagram.
   Property theorems only; each is closed by [exact lemma]; statements are pinned.

   Model: Model/Frag.v (fragmentation.rs line by line; u16 arithmetic checked,
   Message::cut = list cut with its assertion, payload bytes abstract).
   Domain of the theorems ([Valid] and [MtuOk], FragFacts.v):
     Valid h body := 0 <= ihl h /\ total_length h = 4*ihl h + |body| /\
                     0 <= fragment_offset h /\ fragment_offset h + |body|/8 <= 65535
     MtuOk h mtu  := 4*ihl h + 8 <= mtu <= 65535
   With ihl = 5 (the only value the parser accepts) this is total_length =
   20 + |body|, 28 <= mtu; the property's quantifier (payload 0..65515, MTU
   68..65535, any 13-bit offset, any other field) lies inside: C10_domain.
   [PartitionSpec] (FragProps.v) is the property's predicate with every
   conjunct spelled out; [partition_ok] is its executable form, the one the
   correspondence check runs on the implementation's fragments. *)
From Elvis Require Import Model.Base Model.Frag Proofs.FragFacts Proofs.FragChain Proofs.FragProps.
Local Open Scope Z_scope.

(* the executable predicate used by the harness IS the property's predicate *)
Theorem C10_partition_ok_is_spec : forall (A : Type) (eqb : A -> A -> bool),
  (forall x y, eqb x y = true <-> x = y) ->
  forall (o : hdr) (body : list A) (mtu : Z) (frs : list (frag A)),
  partition_ok eqb o body mtu frs = true <->
  (frs <> [] /\
   concat (map snd frs) = body /\
   (forall i h p, nth_error frs i = Some (h, p) ->
      total_length h <= mtu /\
      total_length h = 4 * ihl o + Z.of_nat (length p) /\
      8 * fragment_offset h = 8 * fragment_offset o + sumlen (firstn i frs) /\
      ihl h = ihl o /\ oth h = oth o /\
      (S i = length frs -> flags h = flags o) /\
      (S i <> length frs -> flags h = set_mf (flags o) /\ Z.of_nat (length p) mod 8 = 0)) /\
   (length frs = 1%nat \/ Forall (fun f : frag A => snd f <> []) frs)).
Proof. exact @partition_ok_spec. Qed.
Print Assumptions C10_partition_ok_is_spec.

(* what [set_mf] (set_is_last_fragment(false)) does to the flags: MF set, DF kept;
   for flag values with the reserved bit clear nothing else changes *)
Theorem C10_flags_reading : forall f,
  is_last_fragment (set_mf f) = false /\
  may_fragment (set_mf f) = may_fragment f /\
  set_mf (set_mf f) = set_mf f /\
  (0 <= f < 4 -> set_mf f = Z.lor f 1 /\ 0 <= set_mf f < 4).
Proof. exact flags_reading. Qed.
Print Assumptions C10_flags_reading.

(* the property's quantifier lies inside the theorems' domain *)
Theorem C10_domain : forall (A : Type) (h : hdr) (body : list A),
  ihl h = 5 -> Z.of_nat (length body) <= 65515 ->
  total_length h = 20 + Z.of_nat (length body) -> 0 <= fragment_offset h <= 8191 ->
  Valid h body /\ (forall mtu, 68 <= mtu <= 65535 -> MtuOk h mtu).
Proof. exact @valid_domain. Qed.
Print Assumptions C10_domain.

(* too big, DF clear: no panic, no fuel exhaustion, the result is a partition
   into at least two non-empty pieces *)
Theorem C10_fragment : forall (A : Type) (h : hdr) (body : list A) (mtu : Z),
  Valid h body -> MtuOk h mtu -> may_fragment (flags h) = true -> mtu < total_length h ->
  exists frs, fragment h body mtu = Ok (Fragmented frs) /\ PartitionSpec h body mtu frs /\
              (2 <= length frs)%nat /\ Forall (fun f : frag A => snd f <> []) frs.
Proof. exact @fragment_spec. Qed.
Print Assumptions C10_fragment.

(* a datagram that fits is passed through unchanged (no hypothesis at all) *)
Theorem C10_fits : forall (A : Type) (h : hdr) (body : list A) (mtu : Z),
  total_length h <= mtu -> fragment h body mtu = Ok (DontFragment (h, body)).
Proof. exact @fragment_fits. Qed.
Print Assumptions C10_fits.

(* too big and DF set: discarded (no hypothesis on the header either) *)
Theorem C10_discard : forall (A : Type) (h : hdr) (body : list A) (mtu : Z),
  mtu < total_length h -> may_fragment (flags h) = false -> fragment h body mtu = Ok Discard.
Proof. exact @fragment_discard. Qed.
Print Assumptions C10_discard.

(* the three outcomes at once, on the whole domain, DF set or clear *)
Theorem C10_outcome : forall (A : Type) (h : hdr) (body : list A) (mtu : Z),
  Valid h body -> MtuOk h mtu ->
  exists r, fragment h body mtu = Ok r /\
    match r with
    | DontFragment f => total_length h <= mtu /\ f = (h, body)
    | Discard => mtu < total_length h /\ may_fragment (flags h) = false
    | Fragmented frs => mtu < total_length h /\ may_fragment (flags h) = true /\
                        PartitionSpec h body mtu frs
    end.
Proof. exact @fragment_outcome_spec. Qed.
Print Assumptions C10_outcome.

(* ... and its executable form run by the validator on the implementation's output *)
Theorem C10_outcome_ok_is_spec : forall (A : Type) (eqb : A -> A -> bool),
  (forall x y, eqb x y = true <-> x = y) ->
  forall (h : hdr) (body : list A) (mtu : Z) (r : fragments A),
  outcome_ok eqb h body mtu r = true <->
    match r with
    | DontFragment f => total_length h <= mtu /\ f = (h, body)
    | Discard => mtu < total_length h /\ may_fragment (flags h) = false
    | Fragmented frs => mtu < total_length h /\ may_fragment (flags h) = true /\
                        PartitionSpec h body mtu frs
    end.
Proof. exact @outcome_ok_spec. Qed.
Print Assumptions C10_outcome_ok_is_spec.

Theorem C10_domain_ok_is_spec : forall (A : Type) (h : hdr) (body : list A) (mtu : Z),
  (valid_ok h body = true <-> Valid h body) /\ (mtu_ok h mtu = true <-> MtuOk h mtu).
Proof. exact @domain_ok_iff. Qed.
Print Assumptions C10_domain_ok_is_spec.

(* re-fragmentation, abstractly: partitions (for m') of the pieces of a
   partition of o, concatenated, are a partition (for m') of o *)
Theorem C10_refragment : forall (A : Type) (o : hdr) (body : list A) (m m' : Z)
    (frs : list (frag A)) (pss : list (list (frag A))),
  PartitionSpec o body m frs ->
  Forall2 (fun f ps => PartitionSpec (fst f) (snd f) m' ps) frs pss ->
  PartitionSpec o body m' (concat pss).
Proof. exact @refragment_spec. Qed.
Print Assumptions C10_refragment.

(* ... and the code does it: every piece of a partition of o is again inside the
   domain, so fragmenting all of them for m' succeeds and partitions o *)
Theorem C10_refragment_step : forall (A : Type) (o : hdr) (body : list A) (m m' : Z) (frs : list (frag A)),
  PartitionSpec o body m frs -> Valid o body -> MtuOk o m' -> may_fragment (flags o) = true ->
  exists rs frs', refrag_all m' frs = Ok rs /\ flatten rs = Some frs' /\ PartitionSpec o body m' frs'.
Proof. exact @refrag_step_spec. Qed.
Print Assumptions C10_refragment_step.

(* arbitrary chains of MTUs (decreasing or not), by induction on the chain:
   the pieces that arrive partition the ORIGINAL datagram for the last MTU *)
Theorem C10_chain : forall (A : Type) (mtus : list Z) (o : hdr) (body : list A) (m : Z),
  Valid o body -> may_fragment (flags o) = true -> Forall (MtuOk o) (mtus ++ [m]) ->
  exists frs, chain (mtus ++ [m]) [(o, body)] = Ok (Some frs) /\ PartitionSpec o body m frs.
Proof. exact @chain_spec. Qed.
Print Assumptions C10_chain.

(* for a decreasing chain every earlier (larger) MTU is respected as well *)
Theorem C10_partition_mtu_monotone : forall (A : Type) (o : hdr) (body : list A) (m m' : Z) (frs : list (frag A)),
  m <= m' -> PartitionSpec o body m frs -> PartitionSpec o body m' frs.
Proof. exact @weaken_spec. Qed.
Print Assumptions C10_partition_mtu_monotone.

(* DF set along a chain: unchanged while it fits, discarded at the first MTU it exceeds *)
Theorem C10_chain_df : forall (A : Type) (mtus : list Z) (o : hdr) (body : list A),
  may_fragment (flags o) = false ->
  chain mtus [(o, body)] =
  Ok (if forallb (fun m => total_length o <=? m) mtus then Some [(o, body)] else None).
Proof. exact @chain_df. Qed.
Print Assumptions C10_chain_df.

(* pieces of a datagram that respects IPv4's 16-bit total length have offsets
   that fit the 13-bit header field *)
Theorem C10_offsets_fit_13_bits : forall (A : Type) (o : hdr) (body : list A) (mtu : Z)
    (frs : list (frag A)) (f : frag A),
  PartitionSpec o body mtu frs -> Valid o body ->
  8 * fragment_offset o + Z.of_nat (length body) <= 65535 ->
  In f frs -> 0 <= fragment_offset (fst f) <= 8191.
Proof. exact @offsets_13bit_spec. Qed.
Print Assumptions C10_offsets_fit_13_bits.

(* the hypotheses are satisfiable, and what the model computes on witnesses *)
Theorem C10_example_hypotheses :
  Valid (ex_hdr 50 0 0) (ex_body 30) /\ MtuOk (ex_hdr 50 0 0) 37 /\
  may_fragment (flags (ex_hdr 50 0 0)) = true /\ 37 < total_length (ex_hdr 50 0 0).
Proof. exact example_hypotheses. Qed.
Print Assumptions C10_example_hypotheses.

Theorem C10_example_fragment :
  fragment (ex_hdr 50 0 0) (ex_body 30) 37 =
  Ok (Fragmented [ (ex_hdr 36 0 1, ex_body 16);
                   (ex_hdr 34 2 0, map Z.of_nat (seq 16 14)) ]).
Proof. exact example_fragment. Qed.
Print Assumptions C10_example_fragment.

Theorem C10_example_refragment_middle :
  fragment (ex_hdr 44 100 1) (ex_body 24) 36 =
  Ok (Fragmented [ (ex_hdr 36 100 1, ex_body 16);
                   (ex_hdr 28 102 1, map Z.of_nat (seq 16 8)) ]).
Proof. exact example_refragment_middle. Qed.
Print Assumptions C10_example_refragment_middle.

(* ---- remarks: behaviour outside the property's quantifier (MTU >= 68, valid headers) ---- *)

(* 4*ihl <= mtu < 4*ihl+8 (20..27 for ihl = 5): NFB = 0, the recursion makes no
   progress; the model exhausts ANY fuel, i.e. the Rust function does not return *)
Theorem C10_remark_nfb0_does_not_terminate : forall (A : Type) (fuel : nat) (mtu : Z) (h : hdr) (body : list A),
  0 <= ihl h -> 4 * ihl h <= mtu < 4 * ihl h + 8 -> mtu <= 65535 ->
  mtu < total_length h -> 0 <= fragment_offset h <= 65535 ->
  frag_rec fuel mtu h body = OutOfFuel.
Proof. exact @remark_nfb0. Qed.
Print Assumptions C10_remark_nfb0_does_not_terminate.

(* mtu < 4*ihl: `self.mtu - header.ihl as u16 * 4` underflows *)
Theorem C10_remark_mtu_below_header_panics : forall (A : Type) (fuel : nat) (mtu : Z) (h : hdr) (body : list A),
  0 <= ihl h <= 255 -> mtu < 4 * ihl h -> mtu < total_length h ->
  frag_rec (S fuel) mtu h body = Panic SITE_MTU_SUB.
Proof. exact @remark_small_mtu. Qed.
Print Assumptions C10_remark_mtu_below_header_panics.

(* a fragment offset near 2^16 (not representable in a real header): `+=` overflows *)
Theorem C10_remark_offset_overflow_panics :
  fragment (ex_hdr 36 65535 0) (ex_body 16) 28 = Panic SITE_FO.
Proof. exact remark_offset_overflow. Qed.
Print Assumptions C10_remark_offset_overflow_panics.

(* total_length larger than header + body: Message::cut's assertion fails *)
Theorem C10_remark_short_body_panics :
  fragment (ex_hdr 100 0 0) (ex_body 4) 28 = Panic SITE_CUT.
Proof. exact remark_short_body. Qed.
Print Assumptions C10_remark_short_body_panics.

(* a set reserved flag bit (rejected by the parser) is not carried to non-final pieces *)
Theorem C10_remark_reserved_bit_dropped : set_mf 4 = 1.
Proof. exact set_mf_drops_reserved. Qed.
Print Assumptions C10_remark_reserved_bit_dropped.
