(* C03 (a) - property theorems only: every move of an endpoint is an edge of the
   RFC 9293 Figure 5 diagram (closed under the composite moves of one arrival).
   rfc_edge, rfc_path, one_arrival are defined in Proofs/TcbEdges.v. *)
From Elvis Require Import Model.Base Model.U32 Model.Tcb Proofs.TcbEdges Proofs.TcbInv Proofs.TcbC17.
Local Open Scope Z_scope.

Theorem C03_edges : forall t s t' r,
  process_segment t s = Ok (t', r) -> rfc_edge (st t) (st t') = true.
Proof. exact process_segment_edge. Qed.
Print Assumptions C03_edges.

Theorem C03_edges_arrives : forall t s t' r,
  segment_arrives t s = Ok (t', r) -> rfc_path (st t) (st t').
Proof. exact segment_arrives_path. Qed.
Print Assumptions C03_edges_arrives.

Theorem C03_edges_arrives_one : forall t s t' r,
  in_segs t = [] -> segment_arrives t s = Ok (t', r) -> rfc_edge (st t) (st t') = true.
Proof. exact segment_arrives_edge_one. Qed.
Print Assumptions C03_edges_arrives_one.

Theorem C03_edges_close : forall t, rfc_edge (st t) (st (fst (tcb_close t))) = true.
Proof. exact tcb_close_edge. Qed.
Print Assumptions C03_edges_close.

Theorem C03_close_exact : forall t,
  (st t = SynReceived /\ st (fst (tcb_close t)) = FinWait1) \/
  (st t = Established /\ st (fst (tcb_close t)) = FinWait1) \/
  (st t = CloseWait /\ st (fst (tcb_close t)) = LastAck) \/
  (fst (tcb_close t) = t /\ snd (tcb_close t) = CloseClosing).
Proof. exact tcb_close_exact. Qed.
Print Assumptions C03_close_exact.

Theorem C03_edges_time : forall t dt, st (fst (advance_time t dt)) = st t.
Proof. exact advance_time_st. Qed.
Print Assumptions C03_edges_time.
Theorem C03_edges_segments : forall t t' segs, tcb_segments t = Ok (t', segs) -> st t' = st t.
Proof. exact tcb_segments_st. Qed.
Print Assumptions C03_edges_segments.
Theorem C03_edges_send : forall t b, st (tcb_send t b) = st t.
Proof. exact tcb_send_st. Qed.
Print Assumptions C03_edges_send.
Theorem C03_edges_receive : forall t, st (fst (tcb_receive t)) = st t.
Proof. exact tcb_receive_st. Qed.
Print Assumptions C03_edges_receive.

(* the TCB is deleted only by a RST that got past the sequence check, or in
   LAST-ACK by the acknowledgment of our FIN *)
Theorem C03_deleted_only_when : forall t s t' r,
  process_segment t s = Ok (t', r) -> should_delete r = true ->
  (c_rst (h_ctl (s_hdr s)) = true /\ ps_rst t' (s_hdr s) = Some r) \/
  (r = PFinalizeClose /\ c_ack (h_ctl (s_hdr s)) = true /\ st t = LastAck /\ st t' = LastAck /\
   is_fin_acked t' = true).
Proof. exact process_segment_deleted. Qed.
Print Assumptions C03_deleted_only_when.

Theorem C03_deleted_by_rst : forall t h r, ps_rst t h = Some r ->
  match st t with
  | SynSent => r = (if h_seq h =? rcv_nxt t then PConnectionReset else PBlindReset)
  | SynReceived => r = (if listen_init t then PReturnToListen else PConnectionRefused)
  | Established | FinWait1 | FinWait2 | CloseWait => r = PConnectionReset
  | Closing | LastAck | TimeWait => r = PFinalizeClose
  end.
Proof. exact ps_rst_by_state. Qed.
Print Assumptions C03_deleted_by_rst.

Theorem C03_deleted_only_when_arrives : forall t s t',
  in_segs t = [] -> segment_arrives t s = Ok (t', AClose) ->
  exists r, process_segment t s = Ok (t', r) /\ should_delete r = true /\
    ((c_rst (h_ctl (s_hdr s)) = true /\ ps_rst t' (s_hdr s) = Some r) \/
     (r = PFinalizeClose /\ c_ack (h_ctl (s_hdr s)) = true /\ st t = LastAck /\ st t' = LastAck /\
      is_fin_acked t' = true)).
Proof. exact segment_arrives_close_one. Qed.
Print Assumptions C03_deleted_only_when_arrives.

(* the same with segments waiting in the reassembly heap: the closing result
   comes from one process_segment call, on the new segment or on a queued one,
   reached along diagram edges *)
Theorem C03_deleted_only_when_arrives_any : forall t s t',
  segment_arrives t s = Ok (t', AClose) ->
  exists t0 s0 r, (s0 = s \/ In s0 (in_segs t)) /\ rfc_path (st t) (st t0) /\
    process_segment t0 s0 = Ok (t', r) /\ should_delete r = true /\
    ((c_rst (h_ctl (s_hdr s0)) = true /\ ps_rst t' (s_hdr s0) = Some r) \/
     (r = PFinalizeClose /\ c_ack (h_ctl (s_hdr s0)) = true /\ st t0 = LastAck /\ st t' = LastAck /\
      is_fin_acked t' = true)).
Proof. exact segment_arrives_close. Qed.
Print Assumptions C03_deleted_only_when_arrives_any.

(* rfc_edge is exactly "stay" or one of the fourteen pairs of rfc_table *)
Theorem C03_edge_table : forall a b, rfc_edge a b = true <-> a = b \/ In (a, b) rfc_table.
Proof. exact rfc_edge_table. Qed.
Print Assumptions C03_edge_table.
