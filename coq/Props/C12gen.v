(* C12, second tie: the Gallina text regenerated from modular_cmp.rs on every run equals the hand model,
   so the primitive theorems of Props/C12.v are about what the source says now. *)
From Elvis Require Import Model.Base Model.U32 Gen.ModularCmpGen Proofs.U32Gen.
Local Open Scope Z_scope.

Theorem C12_generated_is_model :
  (forall a b, g_mod_lt a b = mod_lt a b) /\ (forall a b, g_mod_leq a b = mod_leq a b) /\
  (forall a b, g_mod_gt a b = mod_gt a b) /\ (forall a b, g_mod_geq a b = mod_geq a b) /\
  (forall a ab b bc c, g_mod_bounded a ab b bc c = mod_bounded a ab b bc c).
Proof. exact (conj gen_mod_lt (conj gen_mod_leq (conj gen_mod_gt (conj gen_mod_geq gen_mod_bounded)))). Qed.
Print Assumptions C12_generated_is_model.
