(* C08, part ARP / DNS / DHCP - property theorems only.  Each is closed by
   [exact lemma]; statements are pinned.

   decode : bytes -> result (value * unconsumed rest); a byte string is a
   [list Z] with [bytes bs = true]; X_wf are the value ranges of the Rust
   types plus the property's quantifier (48-bit MACs, DNS names without the
   0x20 delimiter, DHCP strings - valid UTF-8 because they are Strings -
   without the 0x00 terminator, rdlength = |rdata| which the public API
   maintains).  The DHCP theorems are about the decoder after
   .cache/codecapp/fix-dhcp.patch; on values and accepted strings it equals the
   decoder as it was (C14app.C14_dhcp_repair_conservative). *)
From Elvis Require Import Model.Base Model.AppBytes Model.Arp Model.Dns Model.Dhcp
  Proofs.AppBytesFacts Proofs.ArpFacts Proofs.DnsFacts Proofs.DhcpFacts.
Local Open Scope Z_scope.

(* ---- ARP ---- *)
Theorem C08_Arp_decode_encode : forall h rest, arp_wf h = true ->
  arp_from_bytes (arp_build h ++ rest) = Ok (h, rest).
Proof. exact arp_decode_encode. Qed.
Print Assumptions C08_Arp_decode_encode.

Example C08_Arp_wf_satisfiable :
  arp_wf (mkArp 65535 65535 255 255 Reply 281474976710655 4294967295 281474976710655 4294967295) = true.
Proof. reflexivity. Qed.

(* accepted strings: the consumed bytes are the encoding of the result, the
   result is in range, exactly 28 bytes are consumed *)
Theorem C08_Arp_encode_decode : forall bs h rest, bytes bs = true ->
  arp_from_bytes bs = Ok (h, rest) ->
  bs = arp_build h ++ rest /\ arp_wf h = true /\ bytes rest = true.
Proof. exact arp_encode_decode. Qed.
Print Assumptions C08_Arp_encode_decode.

Theorem C08_Arp_encode_decode_firstn : forall bs h rest, bytes bs = true ->
  arp_from_bytes bs = Ok (h, rest) ->
  arp_build h = firstn (length bs - length rest) bs /\ (length bs - length rest = 28)%nat.
Proof. exact arp_encode_decode_firstn. Qed.
Print Assumptions C08_Arp_encode_decode_firstn.

(* every value of the Rust type (Mac = u64): the MACs come back mod 2^48;
   outside the property's quantifier, recorded for completeness *)
Theorem C08_Arp_decode_encode_any_u64_mac : forall h rest, arp_repr h = true ->
  arp_from_bytes (arp_build h ++ rest) = Ok (arp_trunc h, rest).
Proof. exact arp_decode_encode_repr. Qed.
Print Assumptions C08_Arp_decode_encode_any_u64_mac.

Theorem C08_Arp_wide_mac_truncated :
  exists h, arp_repr h = true /\
            arp_from_bytes (arp_build h) = Ok (arp_trunc h, []) /\ arp_trunc h <> h.
Proof. exact arp_wide_mac_truncated. Qed.
Print Assumptions C08_Arp_wide_mac_truncated.

(* ---- DNS ---- *)
Theorem C08_Dns_decode_encode : forall m rest, dns_wf m = true ->
  dns_from_bytes (dns_to_message m ++ rest) = Ok (m, rest).
Proof. exact dns_decode_encode. Qed.
Print Assumptions C08_Dns_decode_encode.

Example C08_Dns_wf_satisfiable :
  dns_wf (mkDnsMessage (mkDnsHeader 65535 65535 65535 65535 65535 65535)
            (mkDnsQuestion [255; 0; 33] 65535 65535)
            (mkDnsRr [] 65535 65535 4294967295 3 [32; 32; 255])) = true.
Proof. reflexivity. Qed.

Theorem C08_Dns_encode_decode : forall bs m rest, bytes bs = true ->
  dns_from_bytes bs = Ok (m, rest) ->
  bs = dns_to_message m ++ rest /\ dns_wf m = true /\ bytes rest = true.
Proof. exact dns_encode_decode. Qed.
Print Assumptions C08_Dns_encode_decode.

Theorem C08_Dns_encode_decode_firstn : forall bs m rest, bytes bs = true ->
  dns_from_bytes bs = Ok (m, rest) ->
  dns_to_message m = firstn (length bs - length rest) bs.
Proof. exact dns_encode_decode_firstn. Qed.
Print Assumptions C08_Dns_encode_decode_firstn.

(* the hypotheses of C08_Dns_decode_encode are needed *)
Theorem C08_Dns_delimiter_in_name_refuted :
  exists m, dns_from_bytes (dns_to_message m) <> Ok (m, []) /\
            dns_question_wf (m_question m) = false.
Proof. exact dns_name_with_delimiter_not_round_tripped. Qed.
Print Assumptions C08_Dns_delimiter_in_name_refuted.

Theorem C08_Dns_rdlength_mismatch_refuted :
  exists m, dns_from_bytes (dns_to_message m) <> Ok (m, []) /\ dns_rr_wf (m_answer m) = false.
Proof. exact dns_rdlength_mismatch_not_round_tripped. Qed.
Print Assumptions C08_Dns_rdlength_mismatch_refuted.

(* ---- DHCP ---- *)
Theorem C08_Dhcp_decode_encode : forall h rest, dhcp_wf h = true ->
  dhcp_from_bytes (dhcp_to_message h ++ rest) = Ok (h, rest).
Proof. exact dhcp_decode_encode. Qed.
Print Assumptions C08_Dhcp_decode_encode.

Example C08_Dhcp_wf_satisfiable :
  dhcp_wf (mkDhcp 255 255 255 255 4294967295 65535 255 4294967295 4294967295 4294967295
             4294967295 65535 [83; 195; 169] [] Release) = true.
Proof. reflexivity. Qed.

Theorem C08_Dhcp_encode_decode : forall bs h rest, bytes bs = true ->
  dhcp_from_bytes bs = Ok (h, rest) ->
  bs = dhcp_to_message h ++ rest /\ dhcp_wf h = true /\ bytes rest = true.
Proof. exact dhcp_encode_decode. Qed.
Print Assumptions C08_Dhcp_encode_decode.

Theorem C08_Dhcp_encode_decode_firstn : forall bs h rest, bytes bs = true ->
  dhcp_from_bytes bs = Ok (h, rest) ->
  dhcp_to_message h = firstn (length bs - length rest) bs.
Proof. exact dhcp_encode_decode_firstn. Qed.
Print Assumptions C08_Dhcp_encode_decode_firstn.

Theorem C08_Dhcp_terminator_in_string_refuted :
  exists h, dhcp_from_bytes (dhcp_to_message h) <> Ok (h, []) /\ free_of 0 (h_sname h) = false.
Proof. exact dhcp_name_with_terminator_not_round_tripped. Qed.
Print Assumptions C08_Dhcp_terminator_in_string_refuted.
