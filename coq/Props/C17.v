(* C17 - property theorems only.  Each is closed by [exact lemma]; statements are pinned.
   Inv, wf_seg, wf_op, apply_op, run_ops are defined in Proofs/TcbInv.v; unacceptable,
   reply_only, same_but_oneshot, entirely_outside, within_snd_window in Proofs/TcbC17.v. *)
From Elvis Require Import Model.Base Model.U32 Model.Tcb Model.TcpNet Proofs.U32Facts Proofs.TcbEdges Proofs.TcbInv Proofs.TcbC17.
Local Open Scope Z_scope.

(* ---- the invariant holds initially ... ---- *)
Theorem C17_inv_open : forall lp rp iss mtu0, u16 lp -> u16 rp -> u32 iss ->
  SPACE_FOR_HEADERS <= mtu0 <= 65535 -> Inv (tcb_open lp rp iss mtu0).
Proof. exact tcb_open_inv. Qed.
Print Assumptions C17_inv_open.

Theorem C17_inv_listen : forall s iss mtu0 t, wf_seg s -> u32 iss ->
  SPACE_FOR_HEADERS <= mtu0 <= 65535 -> arrives_listen s iss mtu0 = LTcb t -> Inv t.
Proof. exact arrives_listen_inv. Qed.
Print Assumptions C17_inv_listen.

(* ---- ... and every operation, fed ANY well-formed segment, returns normally
   (no Panic, no OutOfFuel, no Err) and re-establishes it ---- *)
Theorem C17_arrives : forall t s, Inv t -> wf_seg s ->
  exists t' r, segment_arrives t s = Ok (t', r) /\ Inv t'.
Proof. exact segment_arrives_ok. Qed.
Print Assumptions C17_arrives.

Theorem C17_segments : forall t, Inv t ->
  exists t' segs, tcb_segments t = Ok (t', segs) /\ Inv t' /\ Forall wf_seg segs.
Proof. exact tcb_segments_ok. Qed.
Print Assumptions C17_segments.

Theorem C17_send : forall t b, Inv t -> Inv (tcb_send t b).
Proof. exact tcb_send_inv. Qed.
Print Assumptions C17_send.
Theorem C17_receive : forall t, Inv t -> Inv (fst (tcb_receive t)).
Proof. exact tcb_receive_inv. Qed.
Print Assumptions C17_receive.
Theorem C17_close : forall t, Inv t -> Inv (fst (tcb_close t)).
Proof. exact tcb_close_inv. Qed.
Print Assumptions C17_close.
Theorem C17_advance_time : forall t dt, Inv t -> 0 <= dt -> Inv (fst (advance_time t dt)).
Proof. exact advance_time_inv. Qed.
Print Assumptions C17_advance_time.

(* ---- no crash: one operation, then any sequence of operations ---- *)
Theorem C17_no_crash_step : forall t o, Inv t -> wf_op o ->
  exists r, apply_op t o = Ok r /\ Inv_opt r.
Proof. exact apply_op_ok. Qed.
Print Assumptions C17_no_crash_step.

Theorem C17_no_crash : forall ops t, Inv t -> Forall wf_op ops ->
  exists r, run_ops t ops = Ok r /\ Inv_opt r.
Proof. exact run_ops_ok. Qed.
Print Assumptions C17_no_crash.

(* ---- unacceptable segments are inert ---- *)
Theorem C17_unacceptable_inert : forall t s, unacceptable t s ->
  exists t' r, process_segment t s = Ok (t', r) /\ should_delete r = false /\
    reply_only t s t' /\ same_but_oneshot t t'.
Proof. exact unacceptable_inert_ps. Qed.
Print Assumptions C17_unacceptable_inert.

Theorem C17_unacceptable_inert_arrives : forall t s, in_segs t = [] -> unacceptable t s ->
  exists t', segment_arrives t s = Ok (t', AOk) /\ same_but_oneshot t t' /\
    ((in_segs t' = [] /\ reply_only t s t') \/ (t' = set_in_segs t [s] /\ st t <> SynSent /\
       mod_gt (h_seq (s_hdr s)) (rcv_nxt t) = true)).
Proof. exact unacceptable_inert_arrives. Qed.
Print Assumptions C17_unacceptable_inert_arrives.

(* CLOSING is covered since fix commit bbbdf8a3 (the code used to skip the sequence
   check there).  The former refutation witness - an ACK of our FIN and a RST, both
   2^31 beyond RCV.NXT, met in CLOSING - is now an instance of the theorem above,
   and computes to "state unchanged, nothing deleted". *)
Theorem C17_closing_witness_unacceptable :
  Inv closing_tcb /\ wf_seg far_ack /\ wf_seg far_rst /\
  unacceptable closing_tcb far_ack /\ unacceptable closing_tcb far_rst.
Proof. exact (conj (proj1 closing_witness_wf) (conj (proj1 (proj2 closing_witness_wf))
         (conj (proj2 (proj2 closing_witness_wf)) closing_far_unacceptable))). Qed.
Print Assumptions C17_closing_witness_unacceptable.

Theorem C17_closing_witness_inert :
  match segment_arrives closing_tcb far_ack, segment_arrives closing_tcb far_rst with
  | Ok (t1, AOk), Ok (t2, AOk) => st t1 = Closing /\ st t2 = Closing
  | _, _ => False
  end.
Proof. exact closing_now_inert. Qed.
Print Assumptions C17_closing_witness_inert.

(* is_seq_ok = false is "entirely outside [RCV.NXT-1, RCV.NXT+RCV.WND)" *)
Theorem C17_outside_is_unacceptable : forall t len seq syn fin,
  0 < rcv_wnd t <= 65535 -> u32 seq -> 0 <= len ->
  entirely_outside t seq (len + b2z fin + b2z syn) -> is_seq_ok t len seq syn fin = false.
Proof. exact outside_not_ok. Qed.
Print Assumptions C17_outside_is_unacceptable.

Theorem C17_unacceptable_is_outside : forall t len seq syn fin,
  0 < rcv_wnd t <= 65535 -> u32 seq -> 0 <= len ->
  len + b2z fin + b2z syn <= rcv_wnd t + 1 ->
  is_seq_ok t len seq syn fin = false -> entirely_outside t seq (len + b2z fin + b2z syn).
Proof. exact not_ok_outside. Qed.
Print Assumptions C17_unacceptable_is_outside.

(* ---- the send window ---- *)
Theorem C17_window : forall t t' segs, u32 (snd_wnd t) -> tcb_segments t = Ok (t', segs) ->
  snd_una t' = snd_una t /\ snd_wnd t' = snd_wnd t /\
  exists news,
    segs = map (fun h => mkSeg h []) (oneshot t) ++ map t_seg (filter t_needs (retx t)) ++ news /\
    Forall (fun s => s_text s <> [] -> within_snd_window (snd_una t') (snd_wnd t') s) news.
Proof. exact tcb_segments_window. Qed.
Print Assumptions C17_window.

Theorem C17_window_seq : forall t t' segs, u32 (snd_wnd t) -> old_behind t ->
  tcb_segments t = Ok (t', segs) ->
  forall s, In s segs -> s_text s <> [] -> mod_geq (h_seq (s_hdr s)) (snd_nxt t) = true ->
    within_snd_window (snd_una t') (snd_wnd t') s.
Proof. exact tcb_segments_window_seq. Qed.
Print Assumptions C17_window_seq.

(* ---- the same bound for "text-bearing and starting at or after the SND.NXT the
   call found", under the stronger invariant InvR (position of the retransmission
   queue), which is itself initial and preserved by every operation ---- *)
Theorem C17_window_new_data : forall t t' segs, InvR t -> tcb_segments t = Ok (t', segs) ->
  forall s, In s segs -> s_text s <> [] -> mod_geq (h_seq (s_hdr s)) (snd_nxt t) = true ->
    within_snd_window (snd_una t') (snd_wnd t') s.
Proof. exact tcb_segments_window_InvR. Qed.
Print Assumptions C17_window_new_data.

Theorem C17_invR_open : forall lp rp iss mtu0, u16 lp -> u16 rp -> u32 iss ->
  SPACE_FOR_HEADERS <= mtu0 <= 65535 -> InvR (tcb_open lp rp iss mtu0).
Proof. exact tcb_open_InvR. Qed.
Print Assumptions C17_invR_open.

Theorem C17_invR_listen : forall s iss mtu0 t, wf_seg s -> u32 iss ->
  SPACE_FOR_HEADERS <= mtu0 <= 65535 -> arrives_listen s iss mtu0 = LTcb t -> InvR t.
Proof. exact arrives_listen_InvR. Qed.
Print Assumptions C17_invR_listen.

Theorem C17_invR_step : forall t o, InvR t -> wf_op o ->
  exists r, apply_op t o = Ok r /\ InvR_opt r.
Proof. exact apply_op_InvR. Qed.
Print Assumptions C17_invR_step.

Theorem C17_invR_run : forall ops t, InvR t -> Forall wf_op ops ->
  exists r, run_ops t ops = Ok r /\ InvR_opt r.
Proof. exact run_ops_InvR. Qed.
Print Assumptions C17_invR_run.

(* finding kept as a theorem: an ACK exactly 2^31 ahead of SND.UNA = SND.NXT is
   accepted and SND.UNA jumps past SND.NXT *)
Theorem C17_ack_antipode_accepted :
  InvR idle_tcb /\ wf_seg antipode_ack /\
  match segment_arrives idle_tcb antipode_ack with
  | Ok (t', AOk) => snd_una t' = 101 + H31 /\ snd_nxt t' = 101 /\ flight t' = H31
  | _ => False
  end.
Proof. exact ack_antipode. Qed.
Print Assumptions C17_ack_antipode_accepted.

(* ---- the closed two-endpoint system of Model/TcpNet.v (opens, sends, reads,
   closes, ticks, delivery / loss / duplication / reordering of the endpoints'
   own segments) with forged well-formed segments injected at any point: no
   step ever raises the panicked flag ---- *)
Theorem C17_no_crash_sys : forall c b ls, wf_cfg c -> Forall wf_label ls ->
  panicked (run c (init_sys b) ls) = false /\ SysInv (run c (init_sys b) ls).
Proof. exact no_crash_sys. Qed.
Print Assumptions C17_no_crash_sys.

(* ---- the two side conditions of Inv / wf_seg are needed ---- *)
Theorem C17_small_mtu_refuted : tcb_segments (tcb_open 1000 80 0 49) = Panic 5.
Proof. exact small_mtu_panics. Qed.
Print Assumptions C17_small_mtu_refuted.

Theorem C17_oversized_text_refuted : segment_arrives idle_tcb oversized_seg = Panic 2.
Proof. exact oversized_text_panics. Qed.
Print Assumptions C17_oversized_text_refuted.
