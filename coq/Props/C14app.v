(* C14 part 1, ARP / DNS / DHCP decoders - property theorems only.

   A Rust panic is the value [Panic site] of the model; the decoders have no
   loop that needs fuel, so "not a panic" leaves only Ok and Err.  ARP and DHCP
   are total over every [list Z] (in particular every byte string of any
   length); the DNS decoder's only site is the checked `i += 1` of the rdata
   loop, excluded because rdlength is read from two bytes.
   The DHCP statement is about the decoder after .cache/codecapp/fix-dhcp.patch
   and DnsQuestion::query_name after fix-dns.patch; the code as it was is
   refuted below. *)
From Elvis Require Import Model.Base Model.AppBytes Model.Arp Model.Dns Model.Dhcp
  Proofs.AppBytesFacts Proofs.ArpFacts Proofs.DnsFacts Proofs.DhcpFacts.
Local Open Scope Z_scope.

Theorem C14_arp_total : forall bs, is_panic (arp_from_bytes bs) = false.
Proof. exact arp_total. Qed.
Print Assumptions C14_arp_total.

Theorem C14_arp_value_or_error : forall bs,
  (exists r, arp_from_bytes bs = Ok r) \/ (exists e, arp_from_bytes bs = Err e).
Proof. exact arp_value_or_error. Qed.
Print Assumptions C14_arp_value_or_error.

Theorem C14_dns_total : forall bs, bytes bs = true -> is_panic (dns_from_bytes bs) = false.
Proof. exact dns_total. Qed.
Print Assumptions C14_dns_total.

Theorem C14_dns_value_or_error : forall bs, bytes bs = true ->
  (exists r, dns_from_bytes bs = Ok r) \/ (exists e, dns_from_bytes bs = Err e).
Proof. exact dns_value_or_error. Qed.
Print Assumptions C14_dns_value_or_error.

Theorem C14_dns_query_name_total : forall q, is_panic (dns_query_name q) = false.
Proof. exact dns_query_name_total. Qed.
Print Assumptions C14_dns_query_name_total.

Theorem C14_dhcp_total : forall bs, is_panic (dhcp_from_bytes bs) = false.
Proof. exact dhcp_total. Qed.
Print Assumptions C14_dhcp_total.

Theorem C14_dhcp_value_or_error : forall bs,
  (exists r, dhcp_from_bytes bs = Ok r) \/ (exists e, dhcp_from_bytes bs = Err e).
Proof. exact dhcp_value_or_error. Qed.
Print Assumptions C14_dhcp_value_or_error.

(* ---- the code as it was ---- *)
Theorem C14_dhcp_orig_refuted :
  exists bs, bytes bs = true /\ is_panic (dhcp_from_bytes_orig bs) = true.
Proof. exact dhcp_orig_refuted. Qed.
Print Assumptions C14_dhcp_orig_refuted.

(* one witness per site: unreachable!(), unwrap of InvalidDhcpType, the two
   from_utf8 unwraps *)
Theorem C14_dhcp_orig_sites :
  dhcp_from_bytes_orig (dhcp_fixed29 ++ [0; 0; 0]) = Panic 31 /\
  dhcp_from_bytes_orig (dhcp_fixed29 ++ [8; 0; 0]) = Panic 32 /\
  dhcp_from_bytes_orig (dhcp_fixed29 ++ [1; 255; 0; 0]) = Panic 33 /\
  dhcp_from_bytes_orig (dhcp_fixed29 ++ [1; 0; 195; 0]) = Panic 34.
Proof.
  exact (conj dhcp_orig_panics_type0 (conj dhcp_orig_panics_type8
        (conj dhcp_orig_panics_sname dhcp_orig_panics_bfile))).
Qed.
Print Assumptions C14_dhcp_orig_sites.

(* the repair is conservative: same answer wherever the old decoder did not
   panic, InvalidDhcpType / InvalidString where it did *)
Theorem C14_dhcp_repair_conservative : forall bs,
  (is_panic (dhcp_from_bytes_orig bs) = false -> dhcp_from_bytes bs = dhcp_from_bytes_orig bs) /\
  (is_panic (dhcp_from_bytes_orig bs) = true ->
   dhcp_from_bytes bs = Err 2 \/ dhcp_from_bytes bs = Err 3).
Proof. exact (fun bs => conj (dhcp_orig_agrees bs) (dhcp_orig_panic_now_error bs)). Qed.
Print Assumptions C14_dhcp_repair_conservative.

(* query_name on an accepted request *)
Theorem C14_dns_query_name_orig_refuted :
  exists bs m rest, bytes bs = true /\ dns_from_bytes bs = Ok (m, rest) /\
                    is_panic (dns_query_name_orig (m_question m)) = true.
Proof. exact dns_query_name_orig_panics. Qed.
Print Assumptions C14_dns_query_name_orig_refuted.

Theorem C14_dns_query_name_repair_conservative : forall q r,
  dns_query_name_orig q = r -> is_panic r = false -> dns_query_name q = r.
Proof. exact dns_query_name_agrees. Qed.
Print Assumptions C14_dns_query_name_repair_conservative.
