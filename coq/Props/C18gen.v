(* C18, second tie by translation: the Gallina text regenerated from utility.rs (Checksum accumulator, both
   cargo configurations) by tools/translate_checksum.py on every run equals the hand model Model/Checksum.v
   for every input in range, so the C18 theorems are about what the source says now. *)
From Elvis Require Import Model.Base Model.Bytes Model.Checksum Model.RsSem Gen.ChecksumGen Proofs.ChecksumGen.
Local Open Scope Z_scope.

(* compute_checksum ON: add_u16 / add_u8 / add_u32 / accumulate_remainder / as_u16 and new.  The checked
   `sum + carry` never panics: the generated function returns Ok. *)
Theorem C18gen_on_is_model :
  g_Checksum_new = 0 /\
  (forall s v, u16 s -> u16 v -> g_Checksum_add_u16 s v = Ok (ck_u16 true s v)) /\
  (forall s a b, u16 s -> byte a -> byte b -> g_Checksum_add_u8 s a b = Ok (ck_u8 true s a b)) /\
  (forall s v, u16 s -> u32 v -> g_Checksum_add_u32 s (to_be 4 v) = Ok (ck_u32 true s v)) /\
  (forall s l, u16 s -> bytes l -> g_Checksum_accumulate_remainder s l = Ok (ck_rem true s l)) /\
  (forall s, u16 s -> g_Checksum_as_u16 s = as_u16 true s).
Proof.
  exact (conj gen_new (conj gen_add_u16 (conj gen_add_u8 (conj gen_add_u32
        (conj gen_accumulate_remainder gen_as_u16))))).
Qed.
Print Assumptions C18gen_on_is_model.

(* add_u32 on ANY four bytes (not only the big-endian bytes of a u32) is two add_u8 calls in source order *)
Theorem C18gen_add_u32_bytes : forall s b0 b1 b2 b3, u16 s -> byte b0 -> byte b1 -> byte b2 -> byte b3 ->
  g_Checksum_add_u32 s [b0; b1; b2; b3] = Ok (ck_u8 true (ck_u8 true s b0 b1) b2 b3).
Proof. exact gen_add_u32_bytes. Qed.
Print Assumptions C18gen_add_u32_bytes.

(* the generated adder equals the hand model of the CHECKED code, panic behaviour included *)
Theorem C18gen_add_u16_checked : forall s v, u16 s -> u16 v ->
  g_Checksum_add_u16 s v = add_u16_checked s v.
Proof. exact gen_add_u16_checked. Qed.
Print Assumptions C18gen_add_u16_checked.

(* compute_checksum OFF: the stubs, for all inputs *)
Theorem C18gen_off_is_model :
  (forall s v, g_Checksum_add_u16_off s v = ck_u16 false s v) /\
  (forall s a b, g_Checksum_add_u8_off s a b = ck_u8 false s a b) /\
  (forall s v, g_Checksum_add_u32_off s (to_be 4 v) = ck_u32 false s v) /\
  (forall s l, g_Checksum_accumulate_remainder_off s l = ck_rem false s l) /\
  (forall s, g_Checksum_as_u16_off s = as_u16 false s).
Proof.
  exact (conj gen_add_u16_off (conj gen_add_u8_off (conj gen_add_u32_off
        (conj gen_accumulate_remainder_off gen_as_u16_off)))).
Qed.
Print Assumptions C18gen_off_is_model.

(* the range hypothesis is an invariant of the accumulator: starting from new() = 0 it always holds *)
Theorem C18gen_range_kept : forall s, u16 s ->
  (forall v, u16 v -> exists s', g_Checksum_add_u16 s v = Ok s' /\ u16 s') /\
  (forall l, bytes l -> exists s', g_Checksum_accumulate_remainder s l = Ok s' /\ u16 s').
Proof. exact gen_range_kept. Qed.
Print Assumptions C18gen_range_kept.

Example C18gen_hypotheses_satisfiable :
  u16 g_Checksum_new /\ g_Checksum_add_u16 65535 1 = Ok 1 /\ g_Checksum_as_u16 65535 = 65535 /\
  g_Checksum_accumulate_remainder 0 [255; 255; 1] = Ok 256.
Proof. unfold u16. repeat split; try reflexivity; cbv; intros; discriminate. Qed.
