(* C14 part 1 (IPv4 / UDP / TCP decoders) - property theorems only.
   The models carry every panic site of the Rust as a [Panic] value; the three decoders contain
   none on their own (no indexing, no unwrap, no checked arithmetic: they read through
   BytesExt, `>>`, `&`, `as`), except the checksum adder `sum + carry` (utility.rs l.24), which
   the last theorem shows unreachable for every sequence of 16-bit words.  Quantified over ALL
   lists of integers (not only bytes), every length, every packet_len / address argument, both
   builds and both repair switches. *)
From Elvis Require Import Model.Base Model.Bytes Model.Checksum Model.Ipv4Hdr Model.UdpHdr Model.TcpHdr
  Proofs.BytesFacts Proofs.ChecksumFacts Proofs.Ipv4HdrFacts Proofs.UdpHdrFacts Proofs.TcpHdrFacts.
Local Open Scope Z_scope.

Theorem C14_ipv4_decode_total : forall fck ftl ck bs s, ipv4_decode fck ftl ck bs <> Panic s.
Proof. exact ipv4_decode_total. Qed.
Print Assumptions C14_ipv4_decode_total.
Theorem C14_ipv4_decode_no_fuel : forall fck ftl ck bs, ipv4_decode fck ftl ck bs <> OutOfFuel.
Proof. exact ipv4_decode_fuel. Qed.
Print Assumptions C14_ipv4_decode_no_fuel.
(* short input is an error value *)
Theorem C14_ipv4_decode_short : forall fck ftl ck bs, (length bs < 20)%nat ->
  exists e, ipv4_decode fck ftl ck bs = Err e.
Proof. exact ipv4_decode_short. Qed.
Print Assumptions C14_ipv4_decode_short.

Theorem C14_udp_decode_total : forall ck bs plen sa da s, udp_decode ck bs plen sa da <> Panic s.
Proof. exact udp_decode_total. Qed.
Print Assumptions C14_udp_decode_total.
Theorem C14_udp_decode_no_fuel : forall ck bs plen sa da, udp_decode ck bs plen sa da <> OutOfFuel.
Proof. exact udp_decode_fuel. Qed.
Print Assumptions C14_udp_decode_no_fuel.
Theorem C14_udp_decode_short : forall ck bs plen sa da, (length bs < 8)%nat ->
  udp_decode ck bs plen sa da = Err EU_HTS.
Proof. exact udp_decode_short. Qed.
Print Assumptions C14_udp_decode_short.

Theorem C14_tcp_decode_total : forall fck ck bs plen sa da s, tcp_decode fck ck bs plen sa da <> Panic s.
Proof. exact tcp_decode_total. Qed.
Print Assumptions C14_tcp_decode_total.
Theorem C14_tcp_decode_no_fuel : forall fck ck bs plen sa da, tcp_decode fck ck bs plen sa da <> OutOfFuel.
Proof. exact tcp_decode_fuel. Qed.
Print Assumptions C14_tcp_decode_no_fuel.
Theorem C14_tcp_decode_short : forall fck ck bs plen sa da, (length bs < 20)%nat ->
  exists e, tcp_decode fck ck bs plen sa da = Err e.
Proof. exact tcp_decode_short. Qed.
Print Assumptions C14_tcp_decode_short.

(* the only arithmetic the decoders reach: Checksum::add_u16.  Its checked addition cannot
   overflow, for any accumulator state and any sequence of u16 arguments, and it computes the
   pure [add16] the codec models use *)
Theorem C14_checksum_adder_no_panic : forall vs acc, u16 acc -> Forall u16 vs ->
  add_all_checked acc vs = Ok (fold_left add16 vs acc) /\ u16 (fold_left add16 vs acc).
Proof. exact add_all_checked_ok. Qed.
Print Assumptions C14_checksum_adder_no_panic.

(* for the record (encoders are outside C14): the two builders that take a `usize` length panic
   exactly on usize overflow of `text_len + header` *)
Theorem C14_udp_build_panics_iff : forall ck sa sp da dp text tlen,
  (exists s, udp_build ck sa sp da dp text tlen = Panic s) <-> usize_max < tlen + 8.
Proof. exact udp_build_panics_iff. Qed.
Print Assumptions C14_udp_build_panics_iff.
Theorem C14_tcp_build_panics_iff : forall ck h sa da text tlen,
  (exists s, tcp_build ck h sa da text tlen = Panic s) <-> usize_max_t < tlen + 20.
Proof. exact tcp_build_panics_iff. Qed.
Print Assumptions C14_tcp_build_panics_iff.
